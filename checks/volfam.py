"""Shared pieces of the volume-family checks (C01, C04, ...): generator cfgs, random
histories (inputs only), script writing, judging."""
import json
import os

KF_ALL = {"C01-empty-any-cookie", "C01-empty-delete-noop", "C01-empty-lost-on-reload",
          "C01-unchanged-keeps-metadata", "C04-empty-dropped", "C04-ttl-filter"}
GEN_W = "SPECIFICATION Spec\nINVARIANT EmitW\nVIEW View\nCHECK_DEADLOCK FALSE"
GEN_ALL = "SPECIFICATION Spec\nINVARIANT Emit\nCHECK_DEADLOCK FALSE"
ASSUMPTIONS = [
    "payloads and metadata are drawn from a small token table (empty, two small, one 3 KiB payload; 5 metadata sets incl. "
    "gzip-stored and TTL); content equality is byte equality decided by the driver's token lookup",
    "the volume server is the real weed/server.VolumeServer on loopback with a stand-in master; one volume per execution",
    "metadata the writer did not supply (content type, modification time) is not constrained",
]


def random_hists(rng, n, length, compaction, metas=("m0", "m1", "m2"), datas=("e", "a", "b", "L")):
    out = []
    for _ in range(n):
        ops = []
        phase = "idle"
        ro = False
        for _ in range(length):
            r = rng.random()
            if r < 0.45:
                ops.append({"ev": "write", "k": rng.choice([1, 2, 3]), "c": rng.choice(["c1", "c1", "c2"]),
                            "d": rng.choice(datas), "m": rng.choice(metas)})
            elif r < 0.65:
                ops.append({"ev": "delete", "k": rng.choice([1, 2, 3]), "c": rng.choice(["c1", "c1", "c2"]),
                            "via": "replicate" if rng.random() < 0.3 else ""})
            elif r < 0.72 and phase == "idle" and not ro:
                ops.append({"ev": "restart"})
            elif r < 0.80 and not compaction:
                ro = not ro
                ops.append({"ev": "ro", "on": ro})
            elif compaction and phase == "idle" and r < 0.86:
                ops.append({"ev": "compact", "algo": rng.choice([1, 2])})
                phase = "compacted"
            elif compaction and phase == "compacted" and r < 0.97:
                ops.append({"ev": "commit"})
                phase = "idle"
            elif compaction and phase == "compacted":
                ops.append({"ev": "cleanup"})
                phase = "idle"
        if ro:
            ops.append({"ev": "ro", "on": False})
        out.append(ops)
    return out


def write_script(path, hists, vttl, keys=(1, 2, 3), cookies=("c1", "c2")):
    with open(path, "w") as f:
        for h in hists:
            ks = sorted({op["k"] for op in h if "k" in op} | {1})
            f.write(json.dumps({"ev": "reset", "vttl": vttl, "keys": ks, "cookies": list(cookies)}) + "\n")
            for op in h:
                f.write(json.dumps(op) + "\n")


def nontrivial(lines):
    ok_write = False
    for s in lines:
        if '"ev":"write"' in s and '"res":"ok"' in s:
            ok_write = True
        elif ok_write and ('"ev":"delete"' in s or '"ev":"commit"' in s or '"ev":"restart"' in s or '"ev":"write"' in s):
            return True
    return False


def mutate(evs):
    """binding self-test: turn the first successful read of non-empty data into other data"""
    for i, e in enumerate(evs):
        if e["ev"] == "read" and e.get("st") == "data" and e.get("d") in ("a", "b"):
            m = [dict(x) for x in evs]
            m[i]["d"] = "b" if e["d"] == "a" else "a"
            return m
    return None


def execute_and_judge(ctx, hists, vttl, name="trace"):
    script = os.path.join(ctx.out, name + "-script.ndjson")
    if ctx.replay:
        script = ctx.replay
    else:
        write_script(script, hists, vttl)
    binp = ctx.build("cvol")
    trace = ctx.drive(binp, ["--script", script], name=name)
    ctx.judge("BlobStoreTrace", trace, "trace_base.cfg", {}, nontrivial=nontrivial, mutate=mutate, label=name)


def execute_and_judge_multi(ctx, parts, name="trace"):
    """parts: [(vttl, hists)] - one script, one driver run, one judge run"""
    script = os.path.join(ctx.out, name + "-script.ndjson")
    if ctx.replay:
        script = ctx.replay
    else:
        with open(script, "w") as f:
            for vttl, hists in parts:
                for h in hists:
                    ks = sorted({op["k"] for op in h if "k" in op} | {1})
                    f.write(json.dumps({"ev": "reset", "vttl": vttl, "keys": ks, "cookies": ["c1", "c2"]}) + "\n")
                    for op in h:
                        f.write(json.dumps(op) + "\n")
    binp = ctx.build("cvol")
    trace = ctx.drive(binp, ["--script", script], name=name)
    ctx.judge("BlobStoreTrace", trace, "trace_base.cfg", {}, nontrivial=nontrivial, mutate=mutate, label=name)
