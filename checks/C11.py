"""C11 - writable-volume set and lookups reflect the cluster state (MasterView.tla, MasterTopoImpl.tla).

Also the shared machinery of C12 (capacity accounting): both properties are judged on the same
executions of harness/cmd/c11 by spec/MasterViewTrace.tla with Prop = "C11" / "C12".

A share of the executions (reset line "via": "master") is run a second time against a REAL master server
(weed/server: SendHeartbeat over in-memory streams, LookupVolume, Assign; harness/cluster/realmaster.go) and
judged by the same trace specification. What that master told its KeepConnected clients is judged by
spec/MasterBroadcastTrace.tla as an advisory extension (evidence: model_drift), never as a C11 verdict."""
import json
import os
import random

NODES4 = [{"id": "n1", "dc": "d1", "rack": "r1"}, {"id": "n2", "dc": "d1", "rack": "r1"},
          {"id": "n3", "dc": "d1", "rack": "r2"}, {"id": "n4", "dc": "d2", "rack": "r1"}]
VOLS4 = [{"id": 1, "rp": "000", "copies": 1, "col": "", "disk": "", "ttl": 0},
         {"id": 2, "rp": "001", "copies": 2, "col": "", "disk": "", "ttl": 0},
         {"id": 3, "rp": "010", "copies": 2, "col": "c1", "disk": "ssd", "ttl": 0},
         {"id": 4, "rp": "100", "copies": 2, "col": "c1", "disk": "", "ttl": 0}]
ECS2 = [{"id": 7, "col": "", "disk": ""}, {"id": 8, "col": "c1", "disk": "ssd"}]
DTS = ["", "ssd"]
LIMIT = 1000
MASTER_SHARE_QUICK = 0.4      # share of the witnesses / random histories that also run against a real master server
MASTER_SHARE_THOROUGH = 0.3


MVOLS = [{"id": 1, "rp": "001", "copies": 2, "col": "", "disk": "", "ttl": 0},
         {"id": 2, "rp": "000", "copies": 1, "col": "", "disk": "", "ttl": 0}]
MECS = [{"id": 7, "col": "", "disk": ""}, {"id": 8, "col": "", "disk": ""}]
MBASE = {"Nodes": {"n1", "n2"}, "VolCfg": MVOLS, "EcCfg": MECS[:1], "Bits": {0, 1}, "AsMin": False, "MaxSlots": 4,
         "StartUp": True, "FixDelta": True, "FixEcSync": True, "Attrs": set(), "MaxOps": 4, "MaxSrv": 3}


def model_cfgs(prop, thorough):
    """(name, constants) of the layer-B model runs. C11 explores read-only / size flips and lookups,
    C12 remote flips and, separately, two ec volumes changing at once."""
    t = 1 if thorough else 0
    vols = MVOLS if thorough else MVOLS[:1]
    if prop == "C11":
        res = [("vol", dict(MBASE, VolCfg=vols, Attrs={"ro", "big"}, Bits={0}, MaxOps=3 + t, MaxSrv=3))]
        if thorough:
            res.append(("asmin", dict(MBASE, Attrs={"ro", "big"}, EcCfg=[], AsMin=True, MaxOps=5, MaxSrv=3,
                                      VolCfg=[dict(MVOLS[1], id=1)])))
        return res
    return [("vol", dict(MBASE, VolCfg=vols, Attrs={"rem"}, EcCfg=[], MaxOps=3 + t, MaxSrv=3 + t)),
            ("ec", dict(MBASE, Nodes={"n1"}, VolCfg=[], EcCfg=MECS, MaxOps=2 + t, MaxSrv=4 + t))]


def sim_cfg(prop):
    """G3: random behaviours of a larger instance of the layer-B model"""
    return dict(MBASE, Attrs={"ro", "big", "rem"}, EcCfg=MECS, AsMin=False, MaxOps=9, MaxSrv=7)


def reset_of(c):
    return {"ev": "reset", "limit": LIMIT, "min": c["AsMin"],
            "nodes": [{"id": n, "dc": "d1", "rack": "r1"} for n in sorted(c["Nodes"])],
            "vols": c["VolCfg"], "vecs": c["EcCfg"], "types": [""], "wishes": [""]}


class Servers:
    """G4 input generation: a random walk of volume servers that produces only message sequences a real
    volume server can produce (stream = full volume heartbeat, full ec heartbeat, then queued deltas and
    periodic snapshots in any order; queued deltas survive a reconnect). No expectations are computed."""

    def __init__(self, rng, nodes, vols, ecs, asmin, races=False, tiering=False, growing=False):
        self.rng = rng
        self.nodes = nodes
        self.vols = vols
        self.ecs = ecs
        self.reset = {"ev": "reset", "limit": LIMIT, "min": asmin, "nodes": nodes, "vols": vols, "vecs": ecs, "types": DTS,
                      "wishes": ["", rng.choice(["d1", "d1", "d2"])]}
        self.srv = {n["id"]: {} for n in nodes}
        self.srvec = {n["id"]: {} for n in nodes}
        self.pend = {n["id"]: [] for n in nodes}
        self.sess = {n["id"]: "down" for n in nodes}
        self.zombie = set()      # servers with an abandoned stream the master has not dropped yet
        self.raced = set()       # one race per server and execution
        self.races = races       # whether servers may re-dial before the master noticed the broken stream
        self.tiering = tiering   # volumes are often moved to / from a remote tier and deleted soon after
        self.growing = growing   # volumes often reach the size limit and the master's size check runs often
        self.maxc = {n["id"]: {"": rng.choice([2, 3, 5]), "ssd": rng.choice([0, 0, 2, 4])} for n in nodes}

    def full_msg(self, n):
        mx = [[t, c] for t, c in sorted(self.maxc[n].items())]
        if self.rng.random() < 0.15:
            mx = [p for p in mx if p[0] == ""]
        vols = [{"id": v, "ro": a["ro"], "big": a["big"], "rem": a["rem"]} for v, a in sorted(self.srv[n].items())]
        return {"ev": "full", "n": n, "mfk": self.rng.choice([0, 7, 100]), "max": mx, "vols": vols}

    def ecfull_msg(self, n):
        return {"ev": "ecfull", "n": n,
                "ecs": [{"id": e, "bits": sorted(b)} for e, b in sorted(self.srvec[n].items()) if b]}

    def change(self, n):
        """one change on volume server n (not an event of the master)"""
        r = self.rng.random()
        s = self.srv[n]
        if self.tiering and s and self.rng.random() < 0.3:
            v = self.rng.choice(sorted(s))
            if s[v]["rem"] and self.rng.random() < 0.5:
                del s[v]
                self.pend[n].append({"ev": "inc", "n": n, "newv": [], "delv": [v]})
            else:
                s[v]["rem"] = not s[v]["rem"]
            return
        if self.growing and s and self.rng.random() < 0.25:
            v = self.rng.choice(sorted(s))
            s[v]["big"] = not s[v]["big"] if self.rng.random() < 0.3 else True
            return
        if r < 0.3:
            cand = [v["id"] for v in self.vols if v["id"] not in s]
            if cand:
                v = self.rng.choice(cand)
                # a volume that arrives full (e.g. moved here) is at the limit from its first report on
                s[v] = {"ro": self.growing and self.rng.random() < 0.3, "big": self.growing and self.rng.random() < 0.5, "rem": False}
                self.pend[n].append({"ev": "inc", "n": n, "newv": [v], "delv": []})
        elif r < 0.45:
            if s:
                v = self.rng.choice(sorted(s))
                del s[v]
                self.pend[n].append({"ev": "inc", "n": n, "newv": [], "delv": [v]})
        elif r < 0.65:
            if s:
                v = self.rng.choice(sorted(s))
                a = self.rng.choice(["ro", "ro", "big", "rem"])
                s[v][a] = not s[v][a]
        elif r < 0.8:
            e = self.rng.choice(self.ecs)["id"]
            b = self.rng.choice([0, 1, 2, 11, 13])
            cur = self.srvec[n].setdefault(e, set())
            if b not in cur:
                cur.add(b)
                self.pend[n].append({"ev": "ecinc", "n": n, "newec": [{"id": e, "bits": [b]}], "delec": []})
        elif r < 0.9:
            have = [(e, b) for e, bs in sorted(self.srvec[n].items()) for b in sorted(bs)]
            if have:
                e, b = self.rng.choice(have)
                self.srvec[n][e].discard(b)
                self.pend[n].append({"ev": "ecinc", "n": n, "newec": [], "delec": [{"id": e, "bits": [b]}]})
        else:
            for t in DTS:
                if self.rng.random() < 0.6:
                    self.maxc[n][t] = self.rng.choice([0, 1, 2, 3, 4, 6])

    def event(self):
        """next master-side event, or None"""
        rng = self.rng
        n = rng.choice(self.nodes)["id"]
        st = self.sess[n]
        if st == "down":
            self.sess[n] = "needec"
            return self.full_msg(n)
        if st == "needec":
            if n in self.zombie and rng.random() < 0.3:
                self.zombie.discard(n)
                return {"ev": "zclose", "n": n}
            self.sess[n] = "up"
            return self.ecfull_msg(n)
        r = rng.random()
        if n in self.zombie and r < 0.5:
            self.zombie.discard(n)
            return {"ev": "zclose", "n": n}
        if self.races and n not in self.raced and r < 0.08:
            self.raced.add(n)
            # the connection broke and the server dialled again before the master's handler of the old stream returned
            self.zombie.add(n)
            self.sess[n] = "needec"
            return dict(self.full_msg(n), ev="reopen")
        if r < 0.07 and n not in self.zombie:
            self.sess[n] = "down"
            return {"ev": "close", "n": n}
        if r < (0.25 if self.growing else 0.12):
            return {"ev": "collect"}
        if r < 0.45 and self.pend[n]:
            # the select loop takes any ready channel: mostly oldest first, sometimes reordered
            i = 0 if rng.random() < 0.6 else rng.randrange(len(self.pend[n]))
            return self.pend[n].pop(i)
        if r < 0.75:
            return self.full_msg(n)
        if r < 0.9:
            return self.ecfull_msg(n)
        return None


def random_histories(rng, count, length, race_share=0.2):
    out = []
    for _ in range(count):
        k = rng.choice([2, 3, 3, 4])
        nodes = NODES4[:k]
        s = Servers(rng, nodes, VOLS4, ECS2, asmin=rng.random() < 0.3, races=rng.random() < race_share,
                    tiering=rng.random() < 0.25, growing=rng.random() < 0.25)
        ops = []
        while len(ops) < length:
            if rng.random() < 0.55:
                s.change(rng.choice(nodes)["id"])
            else:
                e = s.event()
                if e is not None:
                    ops.append(e)
        out.append((s.reset, ops))
    return out


def scenario_histories(rng, count):
    """G4b: directed shapes around the size limit (inputs only): a replica is registered at the limit while a
    read-only replica is in the location list (for a single copy volume: the same replica), later the read-only
    flag is cleared by a full heartbeat with the size unchanged; noise messages in between; then the size check."""
    out = []
    for _ in range(count):
        asmin = rng.random() < 0.2
        reset = {"ev": "reset", "limit": LIMIT, "min": asmin, "nodes": NODES4[:3], "vols": VOLS4, "vecs": ECS2,
                 "types": DTS, "wishes": ["", "d1"]}
        a, b = rng.sample(["n1", "n2", "n3"], 2)
        mx = [["", 5], ["ssd", 3]]

        def full(n, vols):
            return {"ev": "full", "n": n, "mfk": 0, "max": mx,
                    "vols": [{"id": i, "ro": ro, "big": big, "rem": False} for (i, ro, big) in vols]}

        def noise(n, vols):
            r = rng.random()
            if r < 0.3:
                return [{"ev": "ecfull", "n": n, "ecs": []}]
            if r < 0.5:
                return [full(n, vols)]
            return []
        single = rng.random() < 0.5
        ops = []
        if single:
            v = 1          # replication 000: registered read-only AND at the limit in one heartbeat
            other = rng.choice([[], [(4, False, False)]])
            st = [(v, True, True)] + other
            ops += [full(a, st), {"ev": "ecfull", "n": a, "ecs": []}] + noise(a, st)
            st = [(v, False, True)] + other
            ops += [full(a, st)] + noise(a, st)
        else:
            v = rng.choice([2, 4])   # two copies: one replica read-only while the other registers at the limit
            big_first = rng.random() < 0.3
            sa, sb = [(v, True, big_first)], [(v, False, True)]
            ops += [full(a, sa), {"ev": "ecfull", "n": a, "ecs": []}] + noise(a, sa)
            if rng.random() < 0.5:
                ops += [full(b, sb), {"ev": "ecfull", "n": b, "ecs": []}]
            else:          # the second replica arrives through a delta first, the full heartbeat follows
                ops += [full(b, []), {"ev": "ecfull", "n": b, "ecs": []}, {"ev": "inc", "n": b, "newv": [v], "delv": []},
                        full(b, sb)]
            ops += noise(b, sb)
            sa = [(v, False, big_first)]
            ops += [full(a, sa)] + noise(a, sa) + noise(b, sb)
        if rng.random() < 0.5:
            ops.append({"ev": "collect"})
        out.append((reset, ops))
    return out


def write_script(path, execs):
    with open(path, "w") as f:
        for reset, ops in execs:
            f.write(json.dumps(reset) + "\n")
            for op in ops:
                f.write(json.dumps(op) + "\n")


def via_master(execs):
    return [(dict(reset, via="master"), ops) for reset, ops in execs]


def master_only(trace, path):
    """the executions of a recorded trace that ran against the real master server"""
    n = 0
    with open(path, "w") as f:
        keep = False
        for line in open(trace):
            if '"ev":"reset"' in line:
                keep = '"via":"master"' in line
                n += keep
            if keep:
                f.write(line)
    return n


BCAST = dict(BNodes={"n1", "n2"}, BVols={1}, BEcs={7}, BShards={0, 1}, BRule="code", BMaxOps=5)


def run_prop(ctx, prop):
    ctx.sany("MasterView", "MasterViewTrace", "MasterTopoImpl", "MasterBroadcast", "MasterBroadcastModel", "MasterBroadcastTrace")
    rng = random.Random(ctx.seed * 7919 + (11 if prop == "C11" else 12))
    invs = (["InvC11", "InvWritable", "InvLocations"] if prop == "C11"
            else ["InvC12", "InvCounters", "InvTotals"])
    base = "SPECIFICATION Spec\nCHECK_DEADLOCK FALSE\nVIEW MCView\n" + "".join("INVARIANT %s\n" % i for i in invs)
    execs = []
    skip_mc = bool(os.environ.get("VERIF_SKIP_MC"))     # development aid for mutant runs: only drive and judge
    for name, mc in model_cfgs(prop, ctx.thorough):
        # 1. layer B model-checked: the layer-A predicates hold of every snapshot the model can report
        if not skip_mc:
            ctx.model_check(ctx.instance("MC_%s_%s" % (prop, name), "MasterTopoImpl", base, mc), workers=4, timeout=800,
                            label="layer B (%s), repaired code: %s" % (name, ",".join(invs)))
        if not ctx.replay:
            # 2. G2: one shortest history per distinct model state (hist and budget left out of the view)
            g2 = ctx.instance("G2_%s_%s" % (prop, name), "MasterTopoImpl",
                              "SPECIFICATION Spec\nINVARIANT EmitW\nVIEW View\nCHECK_DEADLOCK FALSE", mc)
            hists = ctx.generate(g2, workers=4, timeout=800)
            cap = 1200 if ctx.thorough else 150
            if len(hists) > cap:
                hists = rng.sample(hists, cap)
            execs += [(reset_of(mc), h) for h in hists]
    if prop == "C11" and not skip_mc:
        # the broadcast extension at design level: with the message rule of the code every client's map follows
        # the registry; without the "server still has the volume" filter it does not
        bbase = "SPECIFICATION Spec\nINVARIANT InSync\nCHECK_DEADLOCK FALSE\n"
        bc = dict(BCAST, BVols={1, 2}, BMaxOps=6) if ctx.thorough else BCAST
        ctx.model_check(ctx.instance("MC_bcast", "MasterBroadcastModel", bbase, bc), workers=4, timeout=800,
                        label="broadcast extension: clients' maps follow the registry (message rule of SendHeartbeat)")
        if ctx.thorough:
            ctx.model_check(ctx.instance("MCbad_bcast", "MasterBroadcastModel", bbase, dict(BCAST, BRule="nofilter")), workers=4,
                            timeout=800, expect_violation="InSync", coverage=False,
                            label="broadcast extension without the HasVolumesById filter: must break")
    if ctx.thorough and not skip_mc:
        # the model is sensitive to the defects that were repaired in /repo (S14, S15) and to the open finding
        if prop == "C12":
            for name, mc in model_cfgs(prop, False):
                bad = dict(mc, FixDelta=False, FixEcSync=False)
                ctx.model_check(ctx.instance("MCbad_%s_%s" % (prop, name), "MasterTopoImpl", base, bad), workers=4,
                                timeout=800, expect_violation="InvC12", coverage=False,
                                label="layer B (%s) with the code as found: counter invariant must break" % name)
        else:
            name, mc = model_cfgs(prop, False)[0]
            ctx.model_check(ctx.instance("MCstrict_%s" % prop, "MasterTopoImpl",
                                         "SPECIFICATION Spec\nCHECK_DEADLOCK FALSE\nVIEW MCView\nINVARIANT InvC11Strict\n", mc),
                            workers=4, timeout=800, expect_violation="InvC11Strict", coverage=False,
                            label="layer B without the known finding admitted: ec lookup must break")
            name, mc = model_cfgs(prop, True)[1]
            ctx.model_check(ctx.instance("MCnobig_%s" % prop, "MasterTopoImpl",
                                         "SPECIFICATION Spec\nCHECK_DEADLOCK FALSE\nVIEW MCView\nINVARIANT InvC11NoEc\n", mc),
                            workers=4, timeout=800, expect_violation="InvC11NoEc", coverage=False,
                            label="layer B (asmin) without C11-oversized-joins-writable admitted: must break")
    if not ctx.replay:
        # 3. G3: random behaviours of a larger instance of the layer-B model
        sc = sim_cfg(prop)
        g3 = ctx.instance("G3_%s" % prop, "MasterTopoImpl", "SPECIFICATION Spec\nINVARIANT Emit\nCHECK_DEADLOCK FALSE", sc)
        hists = ctx.generate(g3, simulate=1000 if ctx.thorough else 150, depth=sc["MaxOps"] + sc["MaxSrv"] + 1)
        execs += [(reset_of(sc), h) for h in hists]
        ctx.notes["model_histories"] = len(execs)
        share = MASTER_SHARE_THOROUGH if ctx.thorough else MASTER_SHARE_QUICK
        mexecs = rng.sample(execs, int(len(execs) * share))
        # 4. G4: long random histories over 2-4 servers in 2 data centers / 3 racks, 4 volumes on 2 disk types
        rnd = random_histories(rng, 800 if ctx.thorough else 150, 20 if ctx.thorough else 14)
        # 5. G4b: directed histories around read-only + size limit at registration
        scen = scenario_histories(rng, 400 if ctx.thorough else 40)
        execs += rnd + scen
        # 6. a share of the witnesses and of the random histories and every directed history once more,
        #    against a real master server
        mexecs += rnd[:int(len(rnd) * share)] + scen
        execs += via_master(mexecs)
        ctx.notes["master_mode_executions"] = len(mexecs)
        script = os.path.join(ctx.out, "script.ndjson")
        write_script(script, execs)
    else:
        script = ctx.replay
    binp = ctx.build("c11")
    trace = ctx.drive(binp, ["--script", script])

    def mutate(evs):
        """binding self-test: corrupt one observation the property is about"""
        for i, e in enumerate(evs):
            if e["ev"] != "snap":
                continue
            m = [dict(x) for x in evs]
            if prop == "C12":
                for j, l in enumerate(e["lv"]):
                    if l["k"] == "top" and l["vc"] > 0:
                        lv = [dict(x) for x in e["lv"]]
                        lv[j]["vc"] += 1
                        m[i]["lv"] = lv
                        return m
            else:
                for j, l in enumerate(e["look"]):
                    if len(l["ns"]) > 0:
                        look = [dict(x) for x in e["look"]]
                        look[j]["ns"] = []
                        m[i]["look"] = look
                        return m
        return None

    def nontrivial(lines):
        return sum(1 for x in lines if '"ev":"inc"' in x or '"ev":"ecinc"' in x or '"ev":"close"' in x) >= 1 and len(lines) >= 7

    ctx.judge("MasterViewTrace", trace, "trace_base.cfg", {"Prop": prop}, nontrivial=nontrivial, mutate=mutate,
              chunk_events=2500 if not ctx.thorough else 6000, jobs=4 if not ctx.thorough else 8)
    if prop == "C11":
        # advisory: what the real master told its KeepConnected clients (spec growth, never a C11 verdict)
        mtrace = os.path.join(ctx.out, "trace-master.ndjson")
        if master_only(trace, mtrace):
            bad = ctx.judge_advisory("MasterBroadcastTrace", mtrace, "trace_base.cfg", {}, label="bcast")
            ctx.notes["broadcast_advisory"] = {
                "statement": "a KeepConnected client that applies the master's messages in order knows, after every step, "
                             "exactly the servers the master answers lookups with (ec volumes: the servers listed with shards)",
                "executions_not_explained": bad}
    ctx.rule = ("executions = heartbeat histories fed to a real topology.Topology through the calls of SendHeartbeat, and a share of "
                "them (30-40 % of the witnesses and random histories, every directed history) once more to a real weed/server "
                "MasterServer (in-memory SendHeartbeat streams, lookups by LookupVolume by id and by file id + collection, picks "
                "also by Assign): "
                "G2 one shortest history per distinct state of the model-checked layer-B instances (sampled to a cap), "
                "G3 random behaviours of a larger layer-B instance (2 servers, 2 volumes, 2 ec volumes, all flags; stale / "
                "reordered deltas, reconnects) + seeded random server walks (2-4 servers, 2 data centers, 3 racks, 4 volumes "
                "with replication 000/001/010/100 on 2 disk types, 2 ec volumes, max-count changes, a quarter with tiering "
                "(remote flag flips, deletes), a quarter with volumes arriving / growing to the size limit, a fifth with a server "
                "re-dialling before the master dropped its old stream) + directed histories (a replica registered at the size limit "
                "while a read-only replica is listed, read-only cleared later); "
                "after every event the driver records ToTopologyInfo, the usage counters and AvailableSpaceFor of every "
                "level, Lookup of every id, the writable lists and PickForWrite per volume class; non-trivial = contains an "
                "incremental message or a disconnect and >= 3 events; distinct by hash of the recorded execution")
    ctx.exhaustive = False
    ctx.assumptions += ["real master: public constructor, raft replaced by a stand-in that is always leader, no listener; its periodic jobs "
                        "(size check every 5-10 s) do not run within an execution (milliseconds); the size check is the driver's `collect` step",
                        "heartbeats are processed one at a time (interleavings of concurrently running handlers are not explored); two streams of one server overlap only in the re-dial scenario",
                        "volume ids of normal and ec volumes are disjoint; static volume attributes (collection, replication, ttl, disk type) never change",
                        "free slots = max + remote - volumes - (ecShards/10 + 1 if ecShards > 0), the definition in DiskUsageCounts.FreeSpace",
                        "the size condition of C11 is required right after the master's size check (collect), which is when the code enforces it"]


def run(ctx):
    run_prop(ctx, "C11")
