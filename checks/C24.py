"""C24 - filer metadata stores return what was stored (MetaStore.tla)."""
import json
import os
import random

PATHS = [(("d",), "a"), (("d",), "b"), (("e",), "a")]
CHUNK_CLASSES = [0, 1, 49, 50, 51, 500]


def descriptor(rng, chunks=None, small=False):
    """inputs for one rich random entry; the driver expands it deterministically from the seed"""
    if chunks is None:
        chunks = rng.choice(CHUNK_CLASSES if not small else [0, 1, 2, 51])
    return {"seed": rng.randrange(1, 1 << 30), "chunks": chunks, "fidobj": rng.random() < 0.4,
            "gz": rng.random() < 0.5, "hl": rng.random() < 0.3,
            "content": rng.choice([-1, -1, 0, 1, 2, 3, 100, 5000]), "remote": rng.random() < 0.3,
            "ext": rng.choice([0, 0, 1, 3, 8]), "isdir": rng.random() < 0.2}


def script_from_hist(hist, rng, store, via, base):
    """a TLC-generated history (inputs only: ev, dir, name, e = entry id) -> script lines; the entry
    ids of the history become descriptors (the same id within one history = the same descriptor,
    so that "update to the same entry" and "back to an earlier entry" both occur)"""
    desc = {}
    lines = [{"ev": "reset", "store": store, "via": via, "pbase": base,
              "paths": [[list(p[0]), p[1]] for p in PATHS], "ldirs": [list(d) for d in sorted({p[0] for p in PATHS})]}]
    for op in hist:
        if op["ev"] == "delete":
            lines.append({"ev": "delete", "dir": op["dir"], "name": op["name"]})
        elif op["ev"] == "deltree":
            lines.append({"ev": "deltree", "dir": op["dir"]})
        else:
            if op["e"] not in desc:
                desc[op["e"]] = descriptor(rng)
            lines.append({"ev": op["ev"], "dir": op["dir"], "name": op["name"], "e": desc[op["e"]]})
    return lines


def random_exec(rng, store, via, base, length):
    """G4: longer histories over more paths (nested directories, names that extend one another)"""
    dirs = [["d"], ["d", "a"], ["d", "a", "b"], ["da"], ["e"]]
    names = ["a", "ab", "b", "a b", "日本", "x.txt"]
    paths = [(d, n) for d in dirs for n in names if rng.random() < 0.4] or [(["d"], "a")]
    lines = [{"ev": "reset", "store": store, "via": via, "pbase": base,
              "paths": [list(p) for p in paths], "ldirs": dirs}]
    big = 0
    for _ in range(length):
        d, n = rng.choice(paths)
        r = rng.random()
        if r < 0.06:
            lines.append({"ev": "deltree", "dir": rng.choice(dirs)})
        elif r < 0.2:
            lines.append({"ev": "delete", "dir": d, "name": n})
        else:
            de = descriptor(rng)
            if de["chunks"] == 500:
                big += 1
                if big > 2:
                    de["chunks"] = 51
            op = {"ev": "insert" if r < 0.7 else "update", "dir": d, "name": n, "e": de}
            if op["ev"] == "update" and rng.random() < 0.6:
                # read - modify - write: the entry object returned by the store is edited in place and written back
                op["rmw"] = True
                if rng.random() < 0.7:
                    de["fidobj"] = False          # new chunk ids given as text, over whatever the store left in the chunk objects
            lines.append(op)
    return lines


def run(ctx):
    ctx.sany("MetaStore", "MetaStoreTrace")
    paths = set(PATHS)
    # 1. design level: a lookup reads the last write; writes to one path never disturb another
    mc = ctx.instance("MC_MetaStore", "MetaStore", "MetaStore_mc.cfg",
                      {"Paths": paths, "Entries": {1, 2}, "MaxOps": 5 if ctx.thorough else 4})
    ctx.model_check(mc, workers=4)
    # 2. generators: G1 all mutator histories (depth 2 quick / 3 thorough), G2 one witness per
    #    (store state, last operation) to depth 4 / 5
    g1 = ctx.instance("G1_MetaStore", "MetaStore", "SPECIFICATION Spec\nINVARIANT Emit\nCHECK_DEADLOCK FALSE",
                      {"Paths": paths, "Entries": {1, 2}, "MaxOps": 3 if ctx.thorough else 2})
    hists = ctx.generate(g1, workers=4)
    g2 = ctx.instance("G2_MetaStore", "MetaStore", "SPECIFICATION Spec\nINVARIANT EmitW\nVIEW View\nCHECK_DEADLOCK FALSE",
                      {"Paths": paths, "Entries": {1, 2}, "MaxOps": 5 if ctx.thorough else 4})
    hists += ctx.generate(g2, workers=4, timeout=1500)
    rng = random.Random(ctx.seed)
    cfgs = [(s, v) for s in ("leveldb", "leveldb2", "leveldb3") for v in ("direct", "wrapper")]
    cfgs_m = cfgs + [("leveldb2", "mounted")]  # + the wrapper with a path-specific store mounted at d
    script = os.path.join(ctx.out, "script.ndjson")
    if ctx.replay:
        script = ctx.replay
    else:
        execs = []
        for i, h in enumerate(hists):
            # every history on one configuration in turn (thorough: on two)
            for k in range(2 if ctx.thorough else 1):
                store, via = cfgs_m[(i + 3 * k) % len(cfgs_m)]
                base = "/buckets/bk%d" % rng.randrange(2) if (store == "leveldb3" and rng.random() < 0.4) else "/t"
                execs.append(script_from_hist(h, rng, store, via, base))
        n4 = 2500 if ctx.thorough else 120
        for i in range(n4):
            store, via = cfgs_m[i % len(cfgs_m)]
            base = "/buckets/bk%d" % rng.randrange(2) if (store == "leveldb3" and rng.random() < 0.4) else "/t"
            execs.append(random_exec(rng, store, via, base, rng.choice([4, 8, 12])))
        # every chunk-count class on every configuration, with and without gzip-looking values
        for store, via in cfgs:
            for ch in CHUNK_CLASSES:
                for gz in (False, True):
                    d = descriptor(rng, chunks=ch)
                    d["gz"] = gz
                    d2 = descriptor(rng, chunks=ch)
                    execs.append([{"ev": "reset", "store": store, "via": via, "pbase": "/t",
                                   "paths": [[["d"], "a"], [["d"], "b"]], "ldirs": [["d"]]},
                                  {"ev": "insert", "dir": ["d"], "name": "a", "e": d},
                                  {"ev": "insert", "dir": ["d"], "name": "b", "e": d2},
                                  {"ev": "update", "dir": ["d"], "name": "a", "e": d2},
                                  {"ev": "update", "dir": ["d"], "name": "a", "e": dict(descriptor(rng, chunks=ch), fidobj=False), "rmw": True},
                                  {"ev": "update", "dir": ["d"], "name": "b", "e": dict(d, fidobj=False), "rmw": True},
                                  {"ev": "delete", "dir": ["d"], "name": "b"}])
        with open(script, "w") as f:
            for ex in execs:
                for e in ex:
                    f.write(json.dumps(e) + "\n")
    binp = ctx.build("c24")
    trace = ctx.drive(binp, ["--script", script], timeout=1500)

    def mutate(evs):
        # corrupt one token that was read back
        for i, e in enumerate(evs):
            if e["ev"] == "snap":
                for j, f in enumerate(e["finds"]):
                    if f["found"]:
                        m = [json.loads(json.dumps(x)) for x in evs]
                        m[i]["finds"][j]["got"] = "0" * 40
                        return m
        return None

    ctx.judge("MetaStoreTrace", trace, "trace_base.cfg", {"Paths": set(), "Entries": set(), "MaxOps": 0},
              nontrivial=lambda e: sum(1 for x in e if '"ev":"insert"' in x or '"ev":"update"' in x) >= 1,
              mutate=mutate, chunk_events=min(8000, max(500, sum(1 for _ in open(trace)) // 8 + 1)))
    ctx.rule = ("executions = TLC-enumerated mutator histories (insert / update / delete / delete-children over 3 paths in 2 directories, "
                "2 entry ids; G1 all of length 2 (thorough 3), G2 one witness per (store state, last operation) to depth "
                "4 (thorough 5)) with entry ids expanded to seeded random rich entries, + seeded random histories of "
                "4-12 operations over up to 24 paths in nested directories, + one execution per chunk-count class "
                "{0,1,49,50,51,500} x gzip-looking values x configuration; configurations = leveldb, leveldb2, leveldb3 "
                "x {direct, FilerStoreWrapper} + the wrapper with a second store mounted below it (path translation); after every operation every path is looked up and every directory is "
                "listed through both listing calls; non-trivial = at least one write; distinct by hash of the execution")
    ctx.exhaustive = True
    ctx.assumptions += [
        "token = sha1 of the driver's canonical serialization (harness/cmd/c24 canon): times at second resolution (the "
        "stored format keeps seconds), nil and empty collections identified, a chunk's blob named by the set of "
        "distinct texts of file_id / fid (so a wrong text form or a wrong fid both change the token)",
        "string attributes are valid UTF-8 (protobuf strings); the mime type application/octet-stream, which the "
        "wrapper deliberately normalises to empty, is not generated",
        "hard-link ids are unique per path: sharing of attributes between links is another property's subject",
        "written file ids are in canonical text form with key >= 1",
        "through FilerStoreWrapper every chunk read back has to carry its file id (and source) as text; directly on a "
        "store the representation that was written (text or fid object) comes back",
    ]
