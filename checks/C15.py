"""C15 - plans of volume.balance, volumeServer.evacuate and volume.fix.replication never break
placement (spec/PlanCheck.tla, judge spec/PlanCheckTrace.tla, driver harness/cmd/c15)."""
import json
import os
import random
import sys

sys.path.insert(0, os.path.dirname(os.path.abspath(__file__)))
import plan_gen  # noqa: E402

ALL_RPS = {(x, y, z) for x in range(3) for y in range(3) for z in range(3) if x + y + z <= 3}
# generator / model-checking topologies: id, dc, rack, has ssd
TOPO_THM = [("a1", "d1", "r1", False), ("a2", "d1", "r1", False), ("a3", "d1", "r2", False), ("a4", "d1", "r3", False),
            ("b1", "d2", "r1", False), ("b2", "d2", "r1", False), ("b3", "d2", "r2", False), ("c1", "d3", "r1", False)]
TOPO_MC = [("a1", "d1", "r1", False), ("a2", "d1", "r1", True), ("a3", "d1", "r2", False), ("b1", "d2", "r1", True)]
TOPO_GEN = [("a1", "d1", "r1", True), ("a2", "d1", "r1", False), ("a3", "d1", "r2", True), ("a4", "d1", "r2", False),
            ("b1", "d2", "r3", True), ("b2", "d2", "r3", False), ("b3", "d2", "r4", False), ("b4", "d2", "r4", False)]
TOPO_GEN3 = TOPO_GEN + [("a5", "d1", "r1", False), ("b5", "d2", "r3", False)]


def servers_const(topo):
    return [{"id": s[0], "dc": s[1], "rack": s[2], "ssd": s[3]} for s in topo]


def consts(topo, rps, maxvols=0, maxsteps=0, slacks=(0,), maxec=0, maxdup=0, total=14, data=10):
    return {"Servers": servers_const(topo), "RPs": set(rps), "MaxVols": maxvols, "MaxEc": maxec, "MaxDup": maxdup,
            "Slacks": set(slacks), "MaxSteps": maxsteps, "TotalShards": total, "DataShards": data}


JUDGE_CONSTS = consts([], set(), 0, 0)


def snapshot_from_hist(hist, topo):
    order, caps, reps, ecs = plan_gen.hist_to_snapshot(hist)
    loc = {s[0]: s for s in topo}
    servers = [{"id": s, "dc": loc[s][1], "rack": loc[s][2], "hdd": caps[s]["hdd"], "ssd": caps[s]["ssd"]} for s in order]
    return {"servers": servers, "reps": reps, "shards": ecs}


def executions(rng, snap, kinds=("balance", "evacuate", "fix")):
    out = []
    for kind in kinds:
        ev = {"ev": "reset", "mode": kind, "opt": plan_gen.c15_opt(rng, kind, snap)}
        ev.update(snap)
        out.append(ev)
    return out


def run(ctx):
    ctx.sany("PlanCheck", "PlanCheckTrace")
    # 1. model checking --------------------------------------------------------------------
    # 1a. the placement predicates fit together and the code's own criteria (isGoodMove,
    #     satisfyReplicaPlacement, transcribed) imply the property's clauses, for every replica set
    #     of <= 4 servers over 3 data centers / 6 racks / 8 servers
    thm = ctx.instance("MC_PlanThm", "PlanCheck",
                       "SPECIFICATION Spec\nINVARIANT ThmCompat\nINVARIANT ThmSatisfyImpl\nINVARIANT ThmGoodMove\n"
                       "CHECK_DEADLOCK FALSE", consts(TOPO_THM, ALL_RPS))
    ctx.model_check(thm, workers=4, label="placement theorems, all xyz with x+y+z<=3 (isGoodMove: x=0 or y<=1)")
    if ctx.thorough:
        # the design-level counterexample behind known finding C15-rack-split (reproduced on the real planner)
        bad = ctx.instance("MC_PlanGoodMoveAll", "PlanCheck", "SPECIFICATION Spec\nINVARIANT ThmGoodMoveAll\nCHECK_DEADLOCK FALSE",
                           consts(TOPO_THM, ALL_RPS))
        ctx.model_check(bad, workers=4, expect_violation="ThmGoodMoveAll",
                        label="isGoodMove for ALL xyz: expected counterexample (120)")
    # 1b. every plan of allowed steps keeps the design invariants
    mc = ctx.instance("MC_Plan15", "PlanCheck",
                      "SPECIFICATION Spec\nINVARIANT NoDup\nINVARIANT CapInv\nPROPERTY SatKept\nPROPERTY RepairKept\n"
                      "VIEW MCView\nCHECK_DEADLOCK FALSE",
                      consts(TOPO_MC, {(0, 0, 1), (0, 1, 0), (1, 0, 0), (1, 1, 0)} if ctx.thorough
                             else {(0, 0, 1), (0, 1, 0), (1, 0, 0)},
                             maxvols=2 if ctx.thorough else 1, maxsteps=1 if ctx.thorough else 2, slacks=(0, 1)))
    ctx.model_check(mc, workers=4, timeout=1500,
                    label="all plans of allowed steps (2 steps on 1-volume snapshots; thorough: 1 step on 2-volume snapshots)")

    # 2. generators -------------------------------------------------------------------------
    rng = random.Random(ctx.seed)
    script = os.path.join(ctx.out, "script.ndjson")
    nt = 0
    if ctx.replay:
        script = ctx.replay
    else:
        resets = []
        # G1: every snapshot with one volume on the 4-server topology (all replica sets, slacks)
        g1 = ctx.instance("G1_Plan15", "PlanCheck", "SPECIFICATION Spec\nINVARIANT Emit\nCHECK_DEADLOCK FALSE",
                          consts(TOPO_MC, plan_gen.RP_COMMON, maxvols=1, slacks=(0, 1)))
        h1 = ctx.generate(g1, workers=4)
        if not ctx.thorough:
            h1 = rng.sample(h1, min(len(h1), 300))
        for h in h1:
            resets += executions(rng, snapshot_from_hist(h, TOPO_MC))
        # G3: TLC-sampled snapshots, 2 dc x 2 racks x 2(-3) servers, 4 volumes, tight capacities
        for name, topo, n in (("G3_Plan15", TOPO_GEN, 1500 if ctx.thorough else 30),
                              ("G3_Plan15b", TOPO_GEN3, 1500 if ctx.thorough else 0)):
            if n == 0:
                continue
            g3 = ctx.instance(name, "PlanCheck", "SPECIFICATION Spec\nINVARIANT Emit\nCHECK_DEADLOCK FALSE",
                              consts(topo, plan_gen.RP_COMMON, maxvols=4, slacks=(0, 1, 3)))
            for h in ctx.generate(g3, simulate=n, depth=4 + 1 + len(topo) + 1):
                resets += executions(rng, snapshot_from_hist(h, topo))
        nt = len(resets)
        # G4: seeded random larger snapshots
        for kind in ("balance", "evacuate", "fix"):
            for i in range(4000 if ctx.thorough else 500):
                snap = plan_gen.c15_snapshot(rng, kind, big=ctx.thorough and i % 2 == 0)
                ev = {"ev": "reset", "mode": kind, "opt": plan_gen.c15_opt(rng, kind, snap)}
                ev.update(snap)
                resets.append(ev)
        with open(script, "w") as f:
            for ev in resets:
                f.write(json.dumps(ev) + "\n")
    binp = ctx.build("c15")
    trace = ctx.drive(binp, ["--script", script], env={"VERIF_REPEAT": "5"} if ctx.replay else None)

    def mutate(evs):
        for i, e in enumerate(evs):
            if e["ev"] in ("move", "copy"):
                m = [dict(x) for x in evs]
                m[i]["to"] = "nowhere"
                return m
        return None

    ctx.judge("PlanCheckTrace", trace, "trace_base.cfg", JUDGE_CONSTS,
              nontrivial=lambda e: any('"ev":"move"' in x or '"ev":"copy"' in x or '"ev":"delete"' in x for x in e),
              mutate=mutate)
    ctx.rule = ("executions = one dry-run of a real planner (volume.balance / volumeServer.evacuate / volume.fix.replication) "
                "on a snapshot; snapshots = TLC-enumerated (every 1-volume snapshot on 4 servers) + TLC-sampled (4 volumes on "
                "8-10 servers, 2 dc x 2 racks, slack 0/1/3; %d executions) + seeded random (up to 14 servers, 24 volumes, "
                "under/over-replicated and misplaced volumes, hdd/ssd, collections, read-only/full volumes); every planned "
                "step is one event; non-trivial = the plan has at least one step; distinct by hash of the recorded execution" % nt)
    ctx.exhaustive = False
    ctx.assumptions += [
        "the glue of the commands' Do methods (collect topology -> planner calls) is replicated in weed/shell/verif_hooks_c15.go; "
        "ListCollectionNames is answered with the collection names of the snapshot",
        "snapshots are internally consistent the way the master reports them: VolumeCount = number of volumes of the disk, "
        "all replicas of a volume carry the same replication setting, no erasure-coded shards in C15 snapshots",
        "free capacity of a server for a disk type = MaxVolumeCount - VolumeCount of that disk, updated step by step with the plan",
        "a repair copy 'satisfies the replication setting' is read as: a replica set that could still be completed to a "
        "satisfying one can still be completed after the copy (nothing is demanded of volumes that are already misplaced)",
        "copies and deletions of volume.fix.replication are read from the lines the command prints to its writer",
    ]
