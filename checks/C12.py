"""C12 - master capacity accounting matches the registered volumes and shards.

Shares generators, driver (harness/cmd/c11) and specifications with C11 (see checks/C11.py); the judge
enforces CountsOK of spec/MasterView.tla on every snapshot."""
import importlib.util
import os

_p = os.path.join(os.path.dirname(os.path.abspath(__file__)), "C11.py")
_s = importlib.util.spec_from_file_location("check_C11_shared", _p)
_m = importlib.util.module_from_spec(_s)
_s.loader.exec_module(_m)


def run(ctx):
    _m.run_prop(ctx, "C12")
