"""C35 - clients' volume location cache mirrors master updates (VidMapSpec.tla)."""
import json
import os
import random

import vf

VIDS = [1, 2]
LOCS = [("a", "dc1"), ("b", "dc2"), ("c", "dc1"), ("d", ""), ("e", "dc2")]
APIS = ["urls", "fileid", "locs", "vidlocs"]
KF = "C35-delete-shifts-shared-slice"


def reset_line(dc, nloc=5):
    return {"ev": "reset", "dc": dc, "vids": VIDS, "locs": [{"u": u, "dc": d} for u, d in LOCS[:nloc]]}


def random_sequential(rng, length):
    ex = [reset_line(rng.choice(["dc1", "dc2", "", "dc9"]))]
    nh = 0
    live = {v: [] for v in VIDS}
    for _ in range(length):
        r = rng.random()
        v = rng.choice(VIDS)
        if r < 0.45:
            u = rng.choice(LOCS)[0]
            ex.append({"ev": "add", "v": v, "u": u})
            if u not in live[v]:
                live[v].append(u)
        elif r < 0.75:
            u = rng.choice(live[v]) if live[v] and rng.random() < 0.8 else rng.choice(LOCS)[0]
            ex.append({"ev": "del", "v": v, "u": u})
            if u in live[v]:
                live[v].remove(u)
        elif r < 0.9:
            ex.append({"ev": "lookup", "v": rng.choice(VIDS + [7]) if False else v, "api": rng.choice(APIS)})
        elif nh < 3:
            nh += 1
            ex.append({"ev": "hold", "h": nh, "v": v})
    return ex


def random_storm(rng):
    """sequential prefill, then 2 writers and 2 readers as goroutines (<= 5 calls each)"""
    ex = [reset_line(rng.choice(["dc1", "", "dc2"]))]
    pre = rng.sample([u for u, _ in LOCS], rng.randint(2, 4))
    for u in pre:
        ex.append({"ev": "add", "v": 1, "u": u})
    if rng.random() < 0.5:
        ex.append({"ev": "add", "v": 2, "u": rng.choice(LOCS)[0]})
    calls = []
    live = list(pre)
    for p in (1, 2):
        for _ in range(rng.randint(2, 4)):
            v = 1 if rng.random() < 0.85 else 2
            if rng.random() < 0.6 and live:
                u = live[0] if rng.random() < 0.6 else rng.choice(live)     # deleting the head shifts the most
                calls.append({"ev": "call", "p": p, "op": "del", "v": v, "u": u, "api": ""})
                if u in live and v == 1:
                    live.remove(u)
            else:
                u = rng.choice(LOCS)[0]
                calls.append({"ev": "call", "p": p, "op": "add", "v": v, "u": u, "api": ""})
                if u not in live and v == 1:
                    live.append(u)
    for p in (3, 4):
        for _ in range(rng.randint(3, 5)):
            calls.append({"ev": "call", "p": p, "op": "lookup", "v": 1 if rng.random() < 0.85 else 2, "u": "",
                          "api": rng.choice(APIS)})
    rng.shuffle(calls)
    return ex + calls


def master_client_exec(rng, length):
    """the public path: a real MasterClient fed by a stand-in master over gRPC; the master drops the stream
    once or twice (each reconnect costs >= 1 s of real time: few executions)"""
    ex = [dict(reset_line(rng.choice(["dc1", "dc2"])), mc=True)]
    live = []
    nrec = 0
    for i in range(length):
        r = rng.random()
        v = rng.choice(VIDS)
        if r < 0.5 or not live:
            u = rng.choice(LOCS)[0]
            ex.append({"ev": "add", "v": v, "u": u})
            live.append((v, u))
        elif r < 0.75:
            v, u = rng.choice(live)
            ex.append({"ev": "del", "v": v, "u": u})
            live = [x for x in live if x != (v, u)]
        elif nrec < 2 and i > 2:
            nrec += 1
            ex.append({"ev": "reconnect", "order": rng.choice(["fwd", "rev"])})
    if nrec == 0:
        ex.append({"ev": "reconnect", "order": "rev"})
        ex.append({"ev": "add", "v": 1, "u": rng.choice(LOCS)[0]})
    return ex


def dense_storm(rng, nw, nr):
    """a long storm over one volume with 5 locations of the client's own data center (every element read
    is prepended, which makes a lookup long enough to overlap an in-place delete): writers delete/add at
    random, readers look up continuously; the whole storm is one execution linearized by TLC"""
    locs = [{"u": u, "dc": "dc1"} for u in "abcde"]
    ex = [{"ev": "reset", "dc": "dc1", "vids": VIDS, "locs": locs}]
    for u in "abcde":
        ex.append({"ev": "add", "v": 1, "u": u})
    calls = []
    for p in (1, 2):
        for _ in range(nw):
            calls.append({"ev": "call", "p": p, "op": rng.choice(["add", "del"]), "v": 1, "u": rng.choice("abcde"), "api": ""})
    for p in (3, 4):
        for _ in range(nr):
            calls.append({"ev": "call", "p": p, "op": "lookup", "v": 1, "u": "", "api": rng.choice(["urls", "fileid", "locs"])})
    rng.shuffle(calls)
    return ex + calls


def same_add_storm(rng, fill=40):
    """four writers adding and removing the SAME location of a volume that already has many locations (the scan of
    the list is long), two readers: however the additions interleave, a lookup lists the location at most once and
    one removal removes it"""
    locs = [{"u": "f%02d" % i, "dc": "dc2"} for i in range(fill)] + [{"u": "x", "dc": "dc1"}, {"u": "y", "dc": "dc1"}]
    ex = [{"ev": "reset", "dc": "dc1", "vids": VIDS, "locs": locs}]
    for i in range(fill):
        ex.append({"ev": "add", "v": 1, "u": "f%02d" % i})
    calls = []
    for p in (1, 2, 3, 4):
        for _ in range(rng.randint(18, 26)):
            calls.append({"ev": "call", "p": p, "op": "add" if rng.random() < 0.62 else "del", "v": 1,
                          "u": "x" if rng.random() < 0.85 else "y", "api": ""})
    for p in (5, 6):
        for _ in range(30):
            calls.append({"ev": "call", "p": p, "op": "lookup", "v": 1, "u": "", "api": rng.choice(["urls", "locs"])})
    rng.shuffle(calls)
    return ex + calls


def write_script(path, execs):
    with open(path, "w") as f:
        for ex in execs:
            for op in ex:
                f.write(json.dumps(op) + "\n")


def judge_all(ctx, traces):
    def mutate(evs):
        for i, e in enumerate(evs):
            if e["ev"] == "snap":
                for k, r in enumerate(e["res"]):
                    if len(r["list"]) >= 2:
                        m = [json.loads(json.dumps(x)) for x in evs]
                        m[i]["res"][k]["list"] = r["list"][:-1]      # a live location is lost
                        return m
        return None

    consts = {"Vids": set(), "Urls": set(), "DcOf": vf.Raw("<<>>"), "ClientDc": "", "MaxOps": 0}
    for i, t in enumerate(traces):
        ctx.judge("VidMapTrace", t, "trace_base.cfg", consts,
                  nontrivial=lambda e: sum(1 for x in e if '"ev":"del"' in x or '"op":"del"' in x) >= 1 and len(e) >= 6,
                  mutate=mutate if i == 0 else None, label="-%d" % i)


def run(ctx):
    ctx.sany("VidMapSpec", "VidMapTrace")
    th = ctx.thorough
    if ctx.replay:
        ctx.rule = "replay of the script " + ctx.replay
        return judge_all(ctx, [ctx.drive(ctx.build("c35"), ["--script", ctx.replay])])
    dcof3 = vf.Raw('[u \\in {"a", "b", "c"} |-> IF u = "b" THEN "dc2" ELSE "dc1"]')
    base = {"Vids": set(VIDS), "Urls": {"a", "b", "c"}, "DcOf": dcof3, "ClientDc": "dc1"}
    # 1. the reference itself; and the suspect at design level (a holder of the shared array sees a duplicate)
    ctx.model_check(ctx.instance("MC_VidMap", "VidMapSpec", "VidMapSpec_mc.cfg", dict(base, MaxOps=5 if th else 4)), workers=2)
    ctx.model_check(ctx.instance("X_VidMap_S36", "VidMapSpec", "VidMapSpec_s36.cfg", dict(base, MaxOps=5)), workers=2,
                    expect_violation="HolderViewOK", coverage=False,
                    label="expected: in-place delete under a held slice shows a duplicate (S36 at design level)")
    # 2. generators: G1 all histories (adds, deletes, one hold) over 2 vids x 3 locations; G2 witnesses deeper
    g1 = ctx.instance("G1_VidMap", "VidMapSpec", "SPECIFICATION Spec\nINVARIANT Emit\nCHECK_DEADLOCK FALSE",
                      dict(base, MaxOps=4 if th else 3))
    hists = [("dc1", h) for h in ctx.generate(g1, workers=2)]
    g2 = ctx.instance("G2_VidMap", "VidMapSpec", "SPECIFICATION Spec\nINVARIANT EmitW\nVIEW View\nCHECK_DEADLOCK FALSE",
                      dict(base, MaxOps=5 if th else 4))
    for h in ctx.generate(g2, workers=2, timeout=1200):
        for dc in ("dc1", "", "dc2") if th else ("", "dc2"):
            hists.append((dc, h))
    execs = [[reset_line(dc, 3)] + list(h) for dc, h in hists]
    # regression: the minimal execution of every finding of this property
    for f in vf.load_known_findings():
        if f["property"] == "C35":
            execs.append([dict(e) for e in f["minimal"]])
    # 3. G4: seeded random long histories and goroutine storms
    rng = random.Random(ctx.seed)
    for _ in range(1000 if th else 150):
        execs.append(random_sequential(rng, rng.randint(10, 30)))
    for _ in range(40 if th else 6):
        execs.append(master_client_exec(rng, rng.randint(6, 14)))
    storms = [random_storm(rng) for _ in range(1000 if th else 200)]
    storms += [dense_storm(rng, 60, 100) for _ in range(60 if th else 10)]
    storms += [same_add_storm(rng) for _ in range(60 if th else 12)]
    binp = ctx.build("c35")
    s1 = os.path.join(ctx.out, "script-seq.ndjson")
    write_script(s1, execs)
    s2 = os.path.join(ctx.out, "script-storm.ndjson")
    write_script(s2, storms)
    traces = [ctx.drive(binp, ["--script", s1], name="trace-seq"), ctx.drive(binp, ["--script", s2], name="trace-storm")]
    if th:
        racebin = ctx.build("c35", race=True)
        traces.append(ctx.drive(racebin, ["--script", s2, "--mode", "race"], name="trace-race", timeout=1500))
    judge_all(ctx, traces)
    ctx.rule = ("executions = TLC-enumerated histories of add / delete / hold over 2 volumes x 3 locations (G1 all of "
                "length %d; G2 one witness per (cache state, last operation) to depth %d, each under several client data "
                "centers) + seeded random histories of 10-30 operations over 5 locations in 3 data centers + goroutine "
                "storms (2 writers, 2 readers: short ones of <= 5 calls each and long ones of 60 updates / 100 lookups each "
                "over 5 same-data-center locations, logged as call/ret and linearized by TLC); after every "
                "update the driver looks up every volume through all 4 read paths and re-reads every held slice; "
                "a few executions drive a real MasterClient over gRPC against a stand-in master that drops the stream (reconnect) "
                "and resends its registry; thorough: the storms again under the race detector. non-trivial = contains a delete and >= 5 events; "
                "distinct by hash of the recorded execution" % (4 if th else 3, 5 if th else 4))
    ctx.exhaustive = True
    ctx.assumptions += [
        "a location is identified by its url; the data center of a url does not change within an execution",
        "most executions apply notifications through vidMap.addLocation/deleteLocation exactly as MasterClient does for NewVids/DeletedVids; a few go through a real MasterClient and a stand-in master (KeepConnected stream, reconnect, registry resent), synchronised by a barrier volume id",
        "the order of concurrent events is the order of the driver's log mutex",
    ]
