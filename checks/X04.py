"""X04 (spec growth, not one of the listed properties) - the mount's local metadata cache (weed/filesys/meta_cache)
follows the filer: layer A MetaCache.tla (judge MetaCacheTrace.tla), layer B MetaCacheImpl.tla (model-checked,
generator), driver cmeta (a real mount object, its real cache + subscription, next to a real filer)."""
import json
import os
import random

SMALL = [["a"], ["a", "s"], ["b"]]
MID = [["a"], ["a", "s"], ["a", "t"], ["b"]]
BIG = [["a"], ["a", "s"], ["a", "s", "f"], ["a", "t"], ["a", "t", "f"], ["b"], ["b", "s"], ["b", "s", "f"]]
# initial trees (built by another client before the mount looks anywhere): sets of (path, "dir" | token)
T0 = []
T_SMALL = [T0, [(("a",), "dir"), (("a", "s"), "a"), (("b",), "b")]]
T_MID = [T0, [(("a",), "dir"), (("a", "s"), "dir"), (("b",), "a")], [(("a",), "dir"), (("a", "s"), "a"), (("a", "t"), "dir"), (("b",), "dir")]]
T_BIG = [T0,
         [(("a",), "dir"), (("a", "s"), "dir"), (("a", "s", "f"), "a"), (("a", "t"), "b"), (("b",), "dir")],
         [(("a",), "dir"), (("a", "s"), "dir"), (("a", "s", "f"), "a"), (("a", "t"), "dir"), (("a", "t", "f"), "b"), (("b",), "dir"),
          (("b", "s"), "dir"), (("b", "s", "f"), "a")],
         [(("a",), "dir"), (("a", "s"), "a"), (("b",), "dir"), (("b", "s"), "dir"), (("b", "s", "f"), "b")]]


def consts(paths, trees, **kw):
    names = sorted({n for p in paths for n in p})
    c = {"Paths": {tuple(p) for p in paths}, "NameSeq": tuple(names), "Datas": {"a", "b"}, "MaxOps": 100, "QMax": 3,
         "OwnRaces": False, "OwnMvUnvisited": False, "LogHist": False,
         "InitTrees": tuple(frozenset((tuple(p), v) for p, v in t) for t in trees)}
    c.update(kw)
    return c


def expand(hist, trees):
    """the history's init marker becomes the other client's operations that build the tree, all delivered"""
    out = []
    for op in hist:
        if op["ev"] != "init":
            out.append(op)
            continue
        t = trees[op["i"] - 1]
        for p, v in sorted(t, key=lambda x: (len(x[0]), x[0])):
            out.append({"ev": "op", "who": "o", "k": "mkdir" if v == "dir" else "put", "p": list(p), "n": list(p), "d": "a" if v == "dir" else v})
        if t:
            out.append({"ev": "deliver", "n": 100})
    return out


def interesting(h):
    """the mount has looked somewhere (a visit or an own operation) before another client changes something"""
    seen = False
    for op in h:
        if op["ev"] == "visit" or (op["ev"] == "op" and op["who"] == "m"):
            seen = True
        elif seen and op["ev"] == "op" and op["who"] == "o":
            return True
    return False


def pick(rng, hs, n):
    """seeded sample of n histories, three quarters of them interesting ones (if there are that many)"""
    a = [h for h in hs if interesting(h)]
    b = [h for h in hs if not interesting(h)]
    ka = min(len(a), max(n * 3 // 4, n - len(b)))
    return rng.sample(a, ka) + rng.sample(b, min(len(b), n - ka))


def finish(rng, h, dirs):
    """every execution ends at quiescence (the judged point); a third then list every directory (what the cache
    serves once the mount has looked everywhere); a third first have the other client (re)create every directory
    (what the cache kept below a directory that was deleted shows in the new one)"""
    h = list(h) + [{"ev": "deliver", "n": 100}]
    r = rng.random()
    if r >= 2 / 3:
        h += [{"ev": "op", "who": "o", "k": "mkdir", "p": d, "n": d, "d": "a"} for d in dirs if d]
        h += [{"ev": "deliver", "n": 100}]
    if r >= 1 / 3:
        h += [{"ev": "visit", "p": d} for d in dirs]
    return h


def dirs_of(paths):
    ds = {()}
    for p in paths:
        ds.add(tuple(p[:-1]))
    return [list(d) for d in sorted(ds)]


def model_and_histories(ctx, th):
    # 1. layer B refines layer A.  (a) every reachable state of the model without the two known deviations: the
    #    layer-A judgement holds with nothing excused;  (b) with them, to a depth: it holds with the excuses of layer
    #    A;  (c) the model does exhibit the deviations (NothingExcused is violated).
    inv = "SPECIFICATION Spec\nINVARIANT TypeOK\nINVARIANT Refines\n"
    mc = ctx.instance("MC_X04", "MetaCacheImpl", "MetaCacheImpl_mc.cfg",
                      consts(MID, T_MID, QMax=2) if th else consts(SMALL, T_SMALL, Datas={"a"}, QMax=2))
    # (coverage statistics slow this model down twenty-fold: they are collected in the bounded run below only)
    ctx.model_check(mc, workers=4, timeout=1500, coverage=False, label="no deviation generated: exhaustive, nothing excused")
    if th:
        mcd = ctx.instance("MCD_X04", "MetaCacheImpl", inv + "VIEW MCView\nCHECK_DEADLOCK FALSE",
                           consts(SMALL, T_SMALL, OwnRaces=True, OwnMvUnvisited=True, LogHist=True, MaxOps=6, Datas={"a"}))
        ctx.model_check(mcd, workers=4, timeout=1500, label="own races + own rename of unread directories, bounded")
    mcx = ctx.instance("MCX_X04", "MetaCacheImpl", "SPECIFICATION Spec\nINVARIANT NothingExcused\nVIEW MCView\nCHECK_DEADLOCK FALSE",
                       consts(SMALL, T_SMALL[1:], OwnMvUnvisited=True, OwnRaces=True, LogHist=True, MaxOps=5, Datas={"a"}))
    ctx.model_check(mcx, workers=4, timeout=900, expect_violation="NothingExcused", coverage=False,
                    label="the model exhibits the deviations")
    # 2. generators (layer B's Next): G2 one shortest history per (state, incoming step), G3 random deep ones
    rng = random.Random(ctx.seed)
    g2 = ctx.instance("G2_X04", "MetaCacheImpl", "SPECIFICATION Spec\nINVARIANT EmitW\nVIEW View\nCHECK_DEADLOCK FALSE",
                      consts(MID, T_MID, OwnRaces=True, OwnMvUnvisited=True, LogHist=True, MaxOps=5 if th else 4))
    w = ctx.generate(g2, workers=4, timeout=1800)
    h = [finish(rng, expand(x, T_MID), dirs_of(MID)) for x in pick(rng, w, 2000 if th else 400)]
    ecfg = "SPECIFICATION Spec\nINVARIANT Emit\nCHECK_DEADLOCK FALSE"
    runs = (("G3a_X04", BIG, T_BIG, False, 50), ("G3b_X04", BIG, T_BIG, True, 60), ("G3c_X04", MID, T_MID, True, 50)) if th else \
        (("G3b_X04", BIG, T_BIG, True, 15),)
    for nm, paths, trees, races, n in runs:
        g3 = ctx.instance(nm, "MetaCacheImpl", ecfg,
                          consts(paths, trees, OwnRaces=races, OwnMvUnvisited=races, LogHist=True, MaxOps=13, QMax=8))
        # (each of the 4 simulation workers generates n histories)
        h += [finish(rng, expand(x, trees), dirs_of(paths)) for x in ctx.generate(g3, simulate=n, depth=14, workers=4, timeout=1800)]
    return h


def run(ctx):
    ctx.sany("MetaCache", "MetaCacheImpl", "MetaCacheTrace")
    th = ctx.thorough
    h = []
    if not ctx.replay:
        h = model_and_histories(ctx, th)
    probe = dirs_of(BIG)
    script = os.path.join(ctx.out, "script.ndjson")
    if ctx.replay:
        script = ctx.replay
    else:
        with open(script, "w") as f:
            for x in h:
                f.write(json.dumps({"ev": "reset", "probe": probe}) + "\n")
                for op in x:
                    f.write(json.dumps(op) + "\n")
    binp = ctx.build("cmeta")
    trace = ctx.drive(binp, ["--script", script], timeout=3000)

    def mutate(evs):
        # binding self-test: an entry the cache lists at a quiescence point, dropped from the observation
        for i, e in enumerate(evs):
            if e["ev"] == "snap" and e["q"] == 0:
                for j, l in enumerate(e["c"]):
                    if l["st"] == "ok" and l["es"]:
                        m = [dict(x) for x in evs]
                        m[i]["c"] = [dict(y) for y in e["c"]]
                        m[i]["c"][j]["es"] = l["es"][1:]
                        return m
        return None

    ctx.judge("MetaCacheTrace", trace, "trace_base.cfg", {"Probe": [tuple(p) for p in probe]}, mutate=mutate,
              nontrivial=lambda ls: any('"ev":"visit"' in s for s in ls) and sum(1 for s in ls if '"ok":true' in s) >= 2)
    ctx.rule = ("executions = histories generated by TLC from the implementation-shaped model (changes by another client "
                "and by the mount itself - create/update, mkdir, recursive delete, rename -, the mount looking into "
                "directories, stepwise delivery of the filer's change stream): G2 one witness per (model state, step) over "
                "4 paths, G3 random histories of 14 steps over 8 paths with and without own-change races; run on a real "
                "mount object (no FUSE device) with its real metadata cache and subscription next to a real filer; after "
                "every step the cache's and the filer's listings of %d directories are recorded; non-trivial = the mount "
                "looked into a directory and at least two steps succeeded" % len(probe))
    ctx.assumptions += ["a file's content token is its permission bits; listings are compared as sets of (name, kind or token)",
                        "the driver steps the subscription (events are handed to the real subscriber one by one); the filer's "
                        "rename is exercised only onto absent targets and file onto file",
                        "between quiescence points, and for directories that do not exist, nothing is judged"]
