"""C02 - needle on-disk encoding round-trips, is 8-byte aligned, scans in order, detects altered data (NeedleLayout.tla)."""
import json
import os
import random

LENS = [0, 1, 7, 8, 9, 254, 255]
DATA = [0, 1, 7, 8, 9, 100, 4095, 4096]
PAIRS = [0, 1, 9, 300, 65535]


def fld(rng, n):
    return {"n": n, "seed": rng.randrange(1 << 30)}


def rnd_blob(rng, flags=None, dn=None, nn=None, mn=None, pn=None):
    return {"ev": "put",
            "cookie": [rng.randrange(256) for _ in range(4)],
            "id": [0] * rng.choice([0, 4, 6]) + [rng.randrange(1, 256) for _ in range(8)][:8],
            "flags": rng.randrange(256) if flags is None else flags,
            "data": fld(rng, rng.choice(DATA) if dn is None else dn),
            "name": fld(rng, rng.choice(LENS) if nn is None else nn),
            "mime": fld(rng, rng.choice(LENS) if mn is None else mn),
            "pairs": fld(rng, rng.choice(PAIRS[:3]) if pn is None else pn),
            "lm": [rng.randrange(256) for _ in range(5)],
            "ttl": [rng.randrange(256), rng.randrange(7)],
            "ts": [rng.randrange(256) for _ in range(8)]}


def fix_id(b):
    b["id"] = (b["id"] + [1] * 8)[:8]
    return b


def grid_execs(rng, n):
    """boundary grid: every flag byte x boundary lengths (sampled), one target record followed by a small one"""
    out = []
    for i in range(n):
        v = rng.choice([2, 3, 3, 3, 1]) if i % 5 else 3
        flags = i % 256
        tgt = fix_id(rnd_blob(rng, flags=flags, pn=rng.choice(PAIRS) if rng.random() < 0.1 else rng.choice(PAIRS[:3])))
        other = fix_id(rnd_blob(rng, dn=rng.choice([0, 1, 5]), nn=rng.choice([0, 3]), mn=0, pn=0))
        ops = [tgt, other, {"ev": "get", "i": 1}, {"ev": "get", "i": 2}, {"ev": "scan", "body": True}, {"ev": "scan", "body": False}]
        dn = tgt["data"]["n"]
        if dn > 0:
            pos = rng.choice([0, dn - 1, rng.randrange(dn)])
            ops += [{"ev": "alter", "i": 1, "pos": pos, "mask": rng.choice([1, 2, 4, 8, 16, 32, 64, 128, 255, rng.randrange(1, 256)])},
                    {"ev": "get", "i": 1}, {"ev": "get", "i": 2}, {"ev": "scan", "body": True}]
        out.append(({"ev": "reset", "v": v, "start": rng.choice([8, 8, 0, 16])}, ops))
    return out


def flip_execs(rng, n):
    """a single-bit flip at every data byte position of a sampled record (one copy of the record per position)"""
    out = []
    for _ in range(n):
        v = rng.choice([1, 2, 3, 3])
        dn = rng.choice([1, 2, 7, 8, 9, 16, 24])
        blob = fix_id(rnd_blob(rng, dn=dn, nn=rng.choice([0, 5]), mn=rng.choice([0, 3]), pn=rng.choice([0, 4])))
        ops = []
        for k in range(dn):
            b = json.loads(json.dumps(blob))
            b["id"][7] = k + 1
            ops.append(b)
        for k in range(dn):
            ops.append({"ev": "alter", "i": k + 1, "pos": k, "mask": 1 << rng.randrange(8)})
        for k in range(dn):
            ops.append({"ev": "get", "i": k + 1})
        ops.append({"ev": "scan", "body": True})
        out.append(({"ev": "reset", "v": v, "start": 8}, ops))
    return out


def long_execs(rng, n, big):
    """random volume files: 5-20 blobs (a few of them large), reads and scans interleaved, some altered"""
    out = []
    for _ in range(n):
        v = rng.choice([2, 3, 3, 3, 1])
        ops = []
        puts = 0
        dns = []
        for _ in range(rng.randrange(8, 30)):
            r = rng.random()
            if r < 0.55 or puts == 0:
                dn = rng.choice([rng.randrange(0, 40), rng.randrange(0, 600), rng.choice(big)]) if rng.random() < 0.8 else 0
                ops.append(fix_id(rnd_blob(rng, dn=dn, nn=rng.choice([0, 1, 12, 255]), mn=rng.choice([0, 10, 255]),
                                           pn=rng.choice([0, 0, 20, 2000]))))
                puts += 1
                dns.append(dn)
            elif r < 0.8:
                ops.append({"ev": "get", "i": rng.randrange(1, puts + 1)})
            elif r < 0.9:
                ops.append({"ev": "scan", "body": rng.random() < 0.7})
            else:
                i = rng.randrange(1, puts + 1)       # alter a data byte of record i (python knows the lengths it chose)
                if dns[i - 1] > 0:
                    ops.append({"ev": "alter", "i": i, "pos": rng.randrange(0, dns[i - 1]), "mask": rng.randrange(1, 256)})
        ops += [{"ev": "get", "i": i} for i in range(1, puts + 1)] + [{"ev": "scan", "body": True}]
        out.append(({"ev": "reset", "v": v, "start": 8}, ops))
    return out


def mutate(evs):
    """binding self-test: a read that returns other data than was written must be rejected"""
    for i, e in enumerate(evs):
        if e["ev"] == "get" and not e["res"]["err"] and e["res"]["data"]["n"] > 0:
            if any(x["ev"] == "alter" for x in evs[:i]):
                continue
            m = [json.loads(json.dumps(x)) for x in evs]
            m[i]["res"]["data"]["h"] = "x" + m[i]["res"]["data"]["h"]
            return m
    return None


def run(ctx):
    ctx.sany("NeedleLayout", "NeedleLayoutTrace")
    level = 2 if ctx.thorough else 1
    rng = random.Random(ctx.seed)
    # 1. laws of the layout definition (arithmetic over the boundary grid, decode(encode) over the small blob family:
    #    invariant LawsOnce) and 2. small files: scan/decode laws on every reachable file (FileLaws); the same TLC run
    #    emits every history (G1)
    execs = []
    if not ctx.replay:
        ctx.notes["grid_points_checked"] = 3 * 256 * (4 * 4 * 4 * 2 if level == 1 else 8 * 7 * 7 * 5)
        mc = ctx.instance("MC_NeedleFiles", "NeedleLayout", "NeedleLayout_mc.cfg", {"MaxOps": 3, "Level": level})
        hists = ctx.generate(mc, workers=4, timeout=1200)
        hists.sort(key=lambda h: json.dumps(h, sort_keys=True))   # TLC emits in worker order
        for h in hists:
            ops = list(h["ops"])
            nput = sum(1 for o in ops if o["ev"] == "put")
            ops += [{"ev": "get", "i": i} for i in range(1, nput + 1)] + [{"ev": "scan", "body": True}, {"ev": "scan", "body": False}]
            execs.append(({"ev": "reset", "v": h["ver"], "start": h["start"]}, ops))
        if not ctx.thorough:
            rng.shuffle(execs)
            execs = execs[:250]
        ctx.notes["tlc_histories_used"] = len(execs)
        k = 10 if ctx.thorough else 1
        execs += grid_execs(rng, 256 * k)
        execs += flip_execs(rng, 12 * k)
        execs += long_execs(rng, 25 * k, [4095, 4096, 5000, 70000] if ctx.thorough else [4095, 4096])
    script = os.path.join(ctx.out, "script.ndjson")
    if ctx.replay:
        script = ctx.replay
    else:
        with open(script, "w") as f:
            for reset, ops in execs:
                f.write(json.dumps(reset) + "\n")
                for op in ops:
                    f.write(json.dumps(op) + "\n")
    binp = ctx.build("c02")
    trace = ctx.drive(binp, ["--script", script])

    def nontrivial(e):
        return any('"ev":"put"' in x for x in e) and any('"ev":"get"' in x or '"ev":"scan"' in x for x in e)

    ctx.judge("NeedleLayoutTrace", trace, "trace_base.cfg", {"MaxOps": 0, "Level": 1}, nontrivial=nontrivial, mutate=mutate,
              chunk_events=8000)
    ctx.rule = ("executions = one volume data file each: (a) TLC-enumerated histories of length 3 over 5-7 blobs x versions 1,2,3 "
                "x start offsets {0,8} (put/get/alter/scan), each followed by a read of every record and two scans; (b) boundary "
                "grid: every flag byte 0..255 x name/mime lengths {0,1,7,8,9,254,255} x data {0,1,7,8,9,100,4095,4096} x pairs "
                "{0,1,9,300,65535} (seeded sample), target record + small record, read, scan, one altered data byte, read, scan; "
                "(c) a single-bit flip at every data byte position of sampled records; (d) random files of 5-20 blobs with "
                "interleaved reads, scans and alterations; records up to 700 bytes are compared byte by byte with the layout, "
                "larger ones by header, lengths and content tokens; non-trivial = at least one put and one read/scan")
    ctx.exhaustive = True
    ctx.assumptions += ["the checksum is not interpreted: only 'altered data within a 32-bit burst => every later read fails' is demanded "
                        "(CRC-32 guarantee); alterations spread wider than 4 bytes admit any result",
                        "checksum and padding bytes of a record are not compared",
                        "names/mimes up to 255 bytes, pairs up to 65535 bytes, PairsSize = len(pairs), Ttl pointer non-nil (as "
                        "CreateNeedleFromRequest builds needles)",
                        "content equality of large fields is equality of (length, FNV-64 token)"]
