"""C02 - needle on-disk encoding round-trips, is 8-byte aligned, scans in order, detects altered data (NeedleLayout.tla)."""
import json
import os
import random

LENS = [0, 1, 7, 8, 9, 254, 255]
DATA = [0, 1, 7, 8, 9, 100, 4095, 4096]
PAIRS = [0, 1, 9, 300, 65535]


def fld(rng, n):
    return {"n": n, "seed": rng.randrange(1 << 30)}


def rnd_blob(rng, flags=None, dn=None, nn=None, mn=None, pn=None):
    return {"ev": "put",
            "cookie": [rng.randrange(256) for _ in range(4)],
            "id": [0] * rng.choice([0, 4, 6]) + [rng.randrange(1, 256) for _ in range(8)][:8],
            "flags": rng.randrange(256) if flags is None else flags,
            "data": fld(rng, rng.choice(DATA) if dn is None else dn),
            "name": fld(rng, rng.choice(LENS) if nn is None else nn),
            "mime": fld(rng, rng.choice(LENS) if mn is None else mn),
            "pairs": fld(rng, rng.choice(PAIRS[:3]) if pn is None else pn),
            "lm": [rng.randrange(256) for _ in range(5)],
            "ttl": [rng.randrange(256), rng.randrange(7)],
            "ts": [rng.randrange(256) for _ in range(8)]}


def fix_id(b):
    b["id"] = (b["id"] + [1] * 8)[:8]
    return b


def grid_execs(rng, n):
    """boundary grid: every flag byte x boundary lengths (sampled), one target record followed by a small one"""
    out = []
    for i in range(n):
        v = rng.choice([2, 3, 3, 3, 1]) if i % 5 else 3
        flags = i % 256
        tgt = fix_id(rnd_blob(rng, flags=flags, pn=rng.choice(PAIRS) if rng.random() < 0.1 else rng.choice(PAIRS[:3])))
        other = fix_id(rnd_blob(rng, dn=rng.choice([0, 1, 5]), nn=rng.choice([0, 3]), mn=0, pn=0))
        ops = [tgt, other, {"ev": "get", "i": 1}, {"ev": "get", "i": 2}, {"ev": "scan", "body": True}, {"ev": "scan", "body": False}]
        dn = tgt["data"]["n"]
        if dn > 0:
            pos = rng.choice([0, dn - 1, rng.randrange(dn)])
            ops += [{"ev": "alter", "i": 1, "pos": pos, "mask": rng.choice([1, 2, 4, 8, 16, 32, 64, 128, 255, rng.randrange(1, 256)])},
                    {"ev": "get", "i": 1}, {"ev": "get", "i": 2}, {"ev": "scan", "body": True}]
        out.append(({"ev": "reset", "v": v, "start": rng.choice([8, 8, 0, 16])}, ops))
    return out


def flip_execs(rng, n):
    """a single-bit flip at every data byte position of a sampled record (one copy of the record per position)"""
    out = []
    for _ in range(n):
        v = rng.choice([1, 2, 3, 3])
        dn = rng.choice([1, 2, 7, 8, 9, 16, 24])
        blob = fix_id(rnd_blob(rng, dn=dn, nn=rng.choice([0, 5]), mn=rng.choice([0, 3]), pn=rng.choice([0, 4])))
        ops = []
        for k in range(dn):
            b = json.loads(json.dumps(blob))
            b["id"][7] = k + 1
            ops.append(b)
        for k in range(dn):
            ops.append({"ev": "alter", "i": k + 1, "pos": k, "mask": 1 << rng.randrange(8)})
        for k in range(dn):
            ops.append({"ev": "get", "i": k + 1})
        ops.append({"ev": "scan", "body": True})
        out.append(({"ev": "reset", "v": v, "start": 8}, ops))
    return out


def long_execs(rng, n, big):
    """random volume files: 5-20 blobs (a few of them large), reads and scans interleaved, some altered"""
    out = []
    for _ in range(n):
        v = rng.choice([2, 3, 3, 3, 1])
        ops = []
        puts = 0
        dns = []
        for _ in range(rng.randrange(8, 30)):
            r = rng.random()
            if r < 0.55 or puts == 0:
                dn = rng.choice([rng.randrange(0, 40), rng.randrange(0, 600), rng.choice(big)]) if rng.random() < 0.8 else 0
                ops.append(fix_id(rnd_blob(rng, dn=dn, nn=rng.choice([0, 1, 12, 255]), mn=rng.choice([0, 10, 255]),
                                           pn=rng.choice([0, 0, 20, 2000]))))
                puts += 1
                dns.append(dn)
            elif r < 0.8:
                ops.append({"ev": "get", "i": rng.randrange(1, puts + 1)})
            elif r < 0.9:
                ops.append({"ev": "scan", "body": rng.random() < 0.7})
            else:
                i = rng.randrange(1, puts + 1)       # alter a data byte of record i (python knows the lengths it chose)
                if dns[i - 1] > 0:
                    ops.append({"ev": "alter", "i": i, "pos": rng.randrange(0, dns[i - 1]), "mask": rng.randrange(1, 256)})
        ops += [{"ev": "get", "i": i} for i in range(1, puts + 1)] + [{"ev": "scan", "body": True}]
        out.append(({"ev": "reset", "v": v, "start": 8}, ops))
    return out


HEX = "0123456789abcdef"
UNITS = "mhdwMy"
EXTS = ["", "", "jpg", "txt", "q7zx", "z"]


def cps(t):
    return [ord(c) for c in t]


def canon_name(rng):
    """a header-name suffix in canonical MIME form (inputs only): Ab, X1-Yz, ..."""
    seg = lambda: rng.choice("ABCDEFGHXYZ") + "".join(rng.choice("abcxyz0189") for _ in range(rng.randrange(0, 5)))
    return "-".join(seg() for _ in range(rng.randrange(1, 3)))


def rnd_text(rng, n, ext=""):
    """n bytes of printable ASCII without quotes, slashes, dots; the last len(ext)+1 bytes are ".ext" """
    body = "".join(rng.choice("abcdefghijklmnopqrstuvwxyz0123456789 _-") for _ in range(n))
    if ext and n > len(ext) + 1:
        body = body[:n - len(ext) - 1] + "." + ext
    return body.strip() or body.replace(" ", "_")


def rnd_req(rng, big):
    """one upload request (inputs only): method, file id text, body, part headers, query, pair headers"""
    method = rng.choice(["POST", "POST", "PUT"])
    key = "".join(rng.choice(HEX) for _ in range(rng.choice([1, 2, 2, 3, 8, 15, 16])))
    if rng.random() < 0.2:
        key = key.upper()
    delta = rng.choice(["", "", "", "1", "2", "7", "10", "255", "256", "9999", "007", "0"])
    ext = rng.choice(EXTS)
    nn = rng.choice(LENS + [256, 300, 12, 20])
    nm = rnd_text(rng, nn, rng.choice(["", "", "txt", "jpg", "q7zx", "q7zx"]))
    cn = rng.choice(LENS + [256, 300, 10, 24])
    ct = rng.choice(["application/octet-stream", "text/plain", "image/jpeg", "x/y"]) if rng.random() < 0.4 else (
        ("x/" + rnd_text(rng, cn - 2).replace(" ", "_")) if cn >= 3 else "q" * cn)
    pairs = []
    names = set()
    for _ in range(rng.choice([0, 0, 1, 2, 4])):
        pn = canon_name(rng)
        if pn in names:
            continue
        names.add(pn)
        pairs.append({"name": cps(pn), "v": {"n": rng.choice([0, 1, 9, 300]), "seed": rng.randrange(1 << 30)}})
    if pairs and rng.random() < big:
        # the JSON text {"name":"value",...} lands on / next to the 64 KiB limit
        rest = 1 + len(pairs) + sum(len(p["name"]) + p["v"]["n"] + 5 for p in pairs[1:]) + len(pairs[0]["name"]) + 5
        pairs[0]["v"]["n"] = rng.choice([65534, 65535, 65535, 65536, 65537]) - rest
    ts = {"has": rng.random() < 0.7, "v": [0, 0, 0] + [rng.randrange(256) for _ in range(5)]}
    if rng.random() < 0.1:
        ts["v"] = rng.choice([[0] * 8, [0, 0, 0, 255, 255, 255, 255, 255], [0, 0, 1, 0, 0, 0, 0, 0], [0, 0, 0, 0, 0, 0, 0, 1]])
    ttl = {"has": rng.random() < 0.6, "c": rng.choice([0, 1, 3, 254, 255, rng.randrange(256)]), "u": ord(rng.choice(UNITS))}
    return {"ev": "req", "method": method,
            "fid": {"key": cps(key), "ck": cps("".join(rng.choice(HEX) for _ in range(8))), "delta": cps(delta), "ext": cps(ext)},
            "data": fld(rng, rng.choice(DATA)), "name": {"b": cps(nm)}, "ct": {"b": cps(ct)}, "pairs": pairs, "ts": ts, "ttl": ttl,
            "ce": rng.choice(["", "", "", "gzip", "gzip", "br", "identity", "deflate"]) if rng.random() < 0.6 else "",
            "cm": rng.random() < 0.25, "ats": [rng.randrange(256) for _ in range(8)]}


def follow_ups(rng, nrec, ver, start, alter_len, full=True):
    """what is done with the records of a file once they are written: every read path, raw copies, scans, an altered byte
    (full), or one read path per record, one copy and one scan (light)"""
    ops = []
    if not full:
        vias = ["data", "blob", "hdrbody"]
        ops += [{"ev": "get", "i": i, "via": rng.choice(vias)} for i in range(1, nrec + 1)]
        ops.append({"ev": "copy", "i": rng.randrange(1, nrec + 1), "via": rng.choice(["needle", "volume"] if start == 8 else ["needle"]),
                    "ts": [rng.randrange(256) for _ in range(8)]})
        ops += [{"ev": "get", "i": nrec + 1, "via": rng.choice(vias)},
                {"ev": "scan", "body": True, "via": rng.choice(["from", "file"] if start == 8 else ["from"])}]
        return ops
    for i in range(1, nrec + 1):
        ops += [{"ev": "get", "i": i, "via": v} for v in ("data", "blob", "hdrbody")]
    ops.append({"ev": "copy", "i": rng.randrange(1, nrec + 1), "via": "needle", "ts": [rng.randrange(256) for _ in range(8)]})
    if start == 8:
        ops.append({"ev": "copy", "i": rng.randrange(1, nrec + 1), "via": "volume", "ts": [0] * 8})
    ops += [{"ev": "get", "i": j, "via": rng.choice(["data", "blob"])} for j in range(nrec + 1, nrec + 3)]
    ops += [{"ev": "scan", "body": True, "via": "from"}, {"ev": "scan", "body": rng.random() < 0.5, "via": "file"}]
    if alter_len > 0:
        ops += [{"ev": "alter", "i": 1, "pos": rng.randrange(alter_len), "mask": 1 << rng.randrange(8)},
                {"ev": "get", "i": 1, "via": "data"}, {"ev": "get", "i": 1, "via": "blob"}, {"ev": "get", "i": 1, "via": "hdrbody"},
                {"ev": "copy", "i": 1, "via": "needle", "ts": [7] * 8}, {"ev": "get", "i": nrec + 3 if start == 8 else nrec + 2, "via": "data"},
                {"ev": "scan", "body": True, "via": "from"}]
    return ops


def req_execs_from_tlc(rng, reqs, full_share):
    """one execution per TLC-enumerated request: the request, then every read path, copies, scans, an altered byte"""
    out = []
    for q in reqs:
        v = rng.choice([2, 3, 3, 3, 1])
        start = rng.choice([8, 8, 8, 0, 16])
        dn = len(q["data"].get("b", [])) if q["ce"] != "gzip" else 0
        out.append(({"ev": "reset", "v": v, "start": start}, [q] + follow_ups(rng, 1, v, start, dn, rng.random() < full_share)))
    return out


def req_execs_random(rng, n, big, full_share):
    out = []
    for _ in range(n):
        v = rng.choice([2, 3, 3, 3, 1])
        start = rng.choice([8, 8, 8, 0])
        k = rng.choice([1, 1, 2, 3])
        ops = [rnd_req(rng, big) for _ in range(k)]
        if rng.random() < 0.3:       # mixed with blobs built field by field
            ops.insert(rng.randrange(len(ops) + 1), fix_id(rnd_blob(rng, dn=rng.choice([0, 1, 9]))))
        first = ops[0]
        dn = first["data"]["n"] if first.get("ce", "") != "gzip" else 0
        out.append(({"ev": "reset", "v": v, "start": start}, ops + follow_ups(rng, len(ops), v, start, dn, rng.random() < full_share)))
    return out


def mutate(evs):
    """binding self-test: a read that returns other data than was written must be rejected"""
    for i, e in enumerate(evs):
        if e["ev"] == "get" and not e["res"]["err"] and e["res"]["data"]["n"] > 0:
            if any(x["ev"] == "alter" for x in evs[:i]):
                continue
            m = [json.loads(json.dumps(x)) for x in evs]
            m[i]["res"]["data"]["h"] = "x" + m[i]["res"]["data"]["h"]
            return m
    return None


def run(ctx):
    ctx.sany("NeedleLayout", "NeedleLayoutTrace")
    level = 2 if ctx.thorough else 1
    rng = random.Random(ctx.seed)
    # 1. laws of the layout definition (arithmetic over the boundary grid, decode(encode) over the small blob family:
    #    invariant LawsOnce) and 2. small files: scan/decode laws on every reachable file (FileLaws); the same TLC run
    #    emits every history (G1)
    execs = []
    if not ctx.replay:
        ctx.notes["grid_points_checked"] = 3 * 256 * (4 * 4 * 4 * 2 if level == 1 else 8 * 7 * 7 * 5)
        mc = ctx.instance("MC_NeedleFiles", "NeedleLayout", "NeedleLayout_mc.cfg", {"MaxOps": 3, "Level": level})
        hists = ctx.generate(mc, workers=4, timeout=1200)
        hists.sort(key=lambda h: json.dumps(h, sort_keys=True))   # TLC emits in worker order
        reqs = [h["ops"][0] for h in hists if h["ver"] == 0]     # the request domain ReqU (laws checked in the same run)
        hists = [h for h in hists if h["ver"] != 0]
        ctx.notes["tlc_requests"] = len(reqs)
        for h in hists:
            ops = list(h["ops"])
            nput = sum(1 for o in ops if o["ev"] == "put")
            ops += [{"ev": "get", "i": i} for i in range(1, nput + 1)] + [{"ev": "scan", "body": True}, {"ev": "scan", "body": False}]
            execs.append(({"ev": "reset", "v": h["ver"], "start": h["start"]}, ops))
        if not ctx.thorough:
            rng.shuffle(execs)
            execs = execs[:250]
        ctx.notes["tlc_histories_used"] = len(execs)
        k = 10 if ctx.thorough else 1
        # how a blob enters a record: upload requests through CreateNeedleFromRequest, then every read path and raw copies
        share = 1.0 if ctx.thorough else 0.3
        if not ctx.thorough:             # quick: a seeded sample of the enumerated requests (all of them in the thorough tier)
            reqs = rng.sample(reqs, min(len(reqs), 260))
        ctx.notes["tlc_requests_used"] = len(reqs)
        execs += req_execs_from_tlc(rng, reqs, share)
        execs += req_execs_random(rng, (70 if ctx.thorough else 90) * k, 0.15, share)
        execs += grid_execs(rng, 256 * k)
        execs += flip_execs(rng, 12 * k)
        execs += long_execs(rng, 25 * k, [4095, 4096, 5000, 70000] if ctx.thorough else [4095, 4096])
    script = os.path.join(ctx.out, "script.ndjson")
    if ctx.replay:
        script = ctx.replay
    else:
        with open(script, "w") as f:
            for reset, ops in execs:
                f.write(json.dumps(reset) + "\n")
                for op in ops:
                    f.write(json.dumps(op) + "\n")
    binp = ctx.build("c02")
    trace = ctx.drive(binp, ["--script", script])

    def nontrivial(e):
        return any('"ev":"put"' in x or '"ev":"req"' in x for x in e) and any('"ev":"get"' in x or '"ev":"scan"' in x for x in e)

    ctx.judge("NeedleLayoutTrace", trace, "trace_base.cfg", {"MaxOps": 0, "Level": 1}, nontrivial=nontrivial, mutate=mutate,
              chunk_events=8000 if ctx.thorough else 2500)
    ctx.rule = ("executions = one volume data file each: (a) TLC-enumerated histories of length 3 over 5-7 blobs x versions 1,2,3 "
                "x start offsets {0,8} (put/get/alter/scan), each followed by a read of every record and two scans; (b) boundary "
                "grid: every flag byte 0..255 x name/mime lengths {0,1,7,8,9,254,255} x data {0,1,7,8,9,100,4095,4096} x pairs "
                "{0,1,9,300,65535} (seeded sample), target record + small record, read, scan, one altered data byte, read, scan; "
                "(c) a single-bit flip at every data byte position of sampled records; (d) random files of 5-20 blobs with "
                "interleaved reads, scans and alterations; (e) upload requests through CreateNeedleFromRequest: every request of the "
                "TLC-enumerated domain ReqU (all requests that differ from a base request in at most two of: method POST multipart / "
                "PUT raw, file id text (odd / upper-case key hex, _delta incl. leading zeros and byte carry, .ext), data length, "
                "file name (none, plain, known / made-up extension, leading dot, 255, 256 bytes), content type (none, plain, "
                "octet-stream, 255, 256 bytes), 0-2 Seaweed- pairs, ts (absent, 0, small, 2^40-1, 2^40), ttl (absent, 0m, 3m, 255y), "
                "Content-Encoding (none, gzip, br), cm) plus seeded random requests over the full product with names/types up to "
                "300 bytes and pair texts on and around 65535 bytes; each request is appended and then read back through ReadData, "
                "ReadNeedleBlob+ReadBytes and ReadNeedleHeader+ReadNeedleBody, copied raw to the end of the file (ReadNeedleBlob + "
                "WriteNeedleBlob of the needle package and of a real storage.Volume opened over the file), scanned "
                "(ScanVolumeFileFrom and ScanVolumeFile by name), one data byte altered, read / copied / scanned again; "
                "records up to 700 bytes are compared byte by byte with the layout, "
                "larger ones by header, lengths and content tokens; non-trivial = at least one put/request and one read/scan")
    ctx.exhaustive = True
    ctx.assumptions += ["the checksum is not interpreted: only 'altered data within a 32-bit burst => every later read fails' is demanded "
                        "(CRC-32 guarantee); alterations spread wider than 4 bytes admit any result",
                        "checksum and padding bytes of a record are not compared",
                        "names/mimes up to 255 bytes, pairs up to 65535 bytes, PairsSize = len(pairs), Ttl pointer non-nil (as "
                        "CreateNeedleFromRequest builds needles)",
                        "content equality of large fields is equality of (length, FNV-64 token)",
                        "upload requests are handed to CreateNeedleFromRequest the way VolumeServer.PostHandler does (Request.ParseForm first; "
                        "without it Go >= 1.17 no longer exposes the query parameters of a multipart request to FormValue once "
                        "MultipartReader was called); fixJpgOrientation off; one file part per multipart body; ASCII names without quotes or "
                        "slashes; pair names in canonical MIME header form, pair values alphanumeric (no JSON escapes); a declared gzip body "
                        "is a real gzip stream",
                        "where the statement is silent every outcome is admitted: name / mime of 256 bytes and more, pair text of 64 KiB and "
                        "more, ts of 0 or beyond 5 bytes (and the default last-modified), cm on a PUT, a content type that is the default "
                        "type or that the file name's extension may imply (all extensions except a made-up one), has-bits of empty fields",
                        "the pairs of a needle are compared as the JSON object they decode to (standard library), not byte by byte"]
