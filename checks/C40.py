"""C40 - replicated writes leave every replica with the same blob
(ReplWrite.tla layer A, ReplImpl.tla layer B, judge ReplWriteTrace.tla, driver c40 over 2-3 real volume servers)."""
import json
import os
import random
from concurrent.futures import ThreadPoolExecutor

DEVS = {"C01-empty-any-cookie", "C01-empty-delete-noop", "C01-empty-lost-on-reload", "C01-unchanged-keeps-metadata",
        "C40-forwarder-skips-copies", "C40-concurrent-overwrites-diverge"}
FAULTS = {"ro", "rw", "unmount", "mount", "voldelete"}
GEN_W = "SPECIFICATION Spec\nINVARIANT EmitW\nVIEW View\nCHECK_DEADLOCK FALSE"
GEN_ALL = "SPECIFICATION Spec\nINVARIANT Emit\nCHECK_DEADLOCK FALSE"

# the metadata tokens of BlobStore.MetaTable as c40 driver tokens (only Gz(m) matters to the model)
META = {
    "m0": dict(name="n0", mime="y0", pairs="p0", ts="none", ttl="", gz=False),
    "m1": dict(name="n1", mime="y3", pairs="p1", ts="old", ttl="", gz=False),
    "m2": dict(name="n3", mime="y1", pairs="p0", ts="none", ttl="", gz=True),
    "mt": dict(name="n0", mime="y0", pairs="p0", ts="old", ttl="1h", gz=False),
    "mu": dict(name="n5", mime="y0", pairs="p0", ts="none", ttl="1h", gz=False),
}
REPL = {2: ["001", "010", "100"], 3: ["002", "011", "110", "200"]}
# the ways an upload enters: a multipart POST typed by the driver, operation.Upload with a plain reader / a
# util.BytesReader, operation.UploadData; the last three also with client-side encryption
LIB_WAYS = ["reader", "breader", "data"]


def base_consts(**kw):
    c = {"N": 2, "Keys": {1}, "Cookies": {"c1"}, "Datas": {"e", "a"}, "MetaSet": {"m0", "m1"}, "VTtl": "", "MaxOps": 3,
         "BKF": DEVS, "AckMissing": False, "WithTransient": True, "Faults": FAULTS, "NoCountCheck": False,
         "WithRace": False, "SkipFanoutUnchanged": False, "Ways": {"mp"}, "ReEncrypt": False, "DropGzFlag": False}
    c.update(kw)
    return c


def upload(to, k, c, d, name="n0", mime="y0", pairs="p0", ts="none", ttl="", gz=False, fsync=False, m="", via="mp",
           cipher=False):
    return {"ev": "upload", "to": to, "k": k, "c": c, "d": d, "name": name, "mime": mime, "pairs": pairs, "ts": ts,
            "ttl": ttl, "gz": gz, "fsync": fsync, "m": m, "via": via, "cipher": cipher and via != "mp"}


def rand_way(rng, p_lib=0.5, p_cipher=0.35):
    """(via, cipher): the multipart POST or one of the client-library ways, those with or without encryption"""
    if rng.random() >= p_lib:
        return {"via": "mp", "cipher": False}
    # now and then a reader that fails half way: doUpload must give up, nothing may be stored as a success
    return {"via": rng.choice(LIB_WAYS) if rng.random() < 0.93 else "ereader", "cipher": rng.random() < p_cipher}


def from_model(h, rng):
    """a TLC history of ReplImpl -> driver ops; copies left unmounted are mounted at the end, so that what they
    hold is observed"""
    ops = []
    down = set()
    for op in h:
        if op["ev"] == "upload":
            way = op.get("way", "mp")
            via = "mp" if way == "mp" else rng.choice(LIB_WAYS)
            ops.append(upload(op["to"], op["k"], op["c"], op["d"], m=op["m"], via=via, cipher=way == "cipher",
                              **META[op["m"]]))
        elif op["ev"] == "race":
            ops.append(dict(op))
        else:
            ops.append(dict(op))
            if op["ev"] == "fault" and op["kind"] == "unmount":
                down.add(op["r"])
            elif op["ev"] == "fault" and op["kind"] == "mount":
                down.discard(op["r"])
    for r in sorted(down):
        ops.append({"ev": "fault", "kind": "mount", "r": r})
    return ops


def gzip_looking(rng, count):
    """directed: blobs whose own bytes are a gzip file / start with the gzip magic, uploaded as opaque bytes (no
    Content-Encoding) under names and mime types for which the forwarding client compresses - every copy must decode
    to the same bytes"""
    out = []
    combos = [(d, mime, name) for d in ("z", "Z") for mime in ("y1", "y5", "y6", "y0") for name in ("n0", "n1", "n3", "n6")]
    for d, mime, name in rng.sample(combos, min(count, len(combos))):
        n = rng.choice([2, 2, 3])
        ops = [upload(rng.randrange(n), 1, "c1", d, name=name, mime=mime),
               upload(rng.randrange(n), 2, "c1", rng.choice(["a", "L"]), name=name, mime=mime),
               upload(rng.randrange(n), 2, "c1", d, name=name, mime=mime, pairs="p1")]
        out.append((n, rng.choice(REPL[n]), "", ops))
    return out


def random_hists(rng, count, length):
    """G4: seeded random executions over the driver's full token universe (inputs only)"""
    out = []
    for _ in range(count):
        n = rng.choice([2, 2, 3])
        member, mounted, ro = set(range(n)), set(range(n)), set()
        # a volume with a ttl of its own: no client timestamps from 2020 there - a copy whose newest needle is older
        # than the volume's ttl is an expired volume, which its server deletes at the next heartbeat
        vttl = "1h" if rng.random() < 0.1 else ""
        ops = []
        for _ in range(length):
            x = rng.random()
            if x < 0.55:
                pool = sorted(mounted) if mounted and rng.random() < 0.92 else sorted(member)
                ops.append(upload(rng.choice(pool), rng.choice([1, 1, 2]), "c2" if rng.random() < 0.06 else "c1",
                                  rng.choice(["a", "a", "b", "j", "L", "r", "z", "Z", "p", "h", "e", "a", "b", "B", "R"]),
                                  name=rng.choice(["n0", "n0", "n1", "n2", "n3", "n4", "n5", "nL", "n6"]),
                                  mime=rng.choice(["y0", "y0", "y1", "y2", "y3", "y4", "y5", "y6"]),
                                  pairs=rng.choice(["p0", "p0", "p1", "p2"]),
                                  ts=rng.choice(["none", "none", "old", "zero"] if not vttl else ["none", "zero"]),
                                  ttl=rng.choice(["", "", "", "1h", "3d", "0m", "300m"]), gz=rng.random() < 0.2,
                                  fsync=rng.random() < 0.15,
                                  # a failing upload through the client library costs 1.4-5.6 s of retries: mostly
                                  # where every copy is in service (the retry patterns / entry ways have the others)
                                  **rand_way(rng, 0.45 if mounted == member and not ro else 0.12)))
            elif x < 0.60 and mounted:
                d1, d2 = rng.sample(["a", "b", "j", "L", "r", "h"], 2)
                ops.append({"ev": "race", "k": rng.choice([1, 1, 2]), "c": "c1", "to1": rng.choice(sorted(mounted)), "d1": d1,
                            "to2": rng.choice(sorted(mounted)), "d2": d2})
            elif x < 0.78:
                pool = sorted(mounted) if mounted and rng.random() < 0.92 else sorted(member)
                ops.append({"ev": "delete", "to": rng.choice(pool), "k": rng.choice([1, 1, 2]),
                            "c": "c2" if rng.random() < 0.06 else "c1"})
            else:
                r = rng.choice(sorted(member))
                cands = []
                if r in mounted:
                    cands += ["rw"] if r in ro else ["ro", "ro"]
                    cands += ["unmount", "unmount"]
                    if len(member) > 1 and rng.random() < 0.3:
                        cands.append("voldelete")
                else:
                    cands += ["mount", "mount", "mount"]
                kind = rng.choice(cands)
                ops.append({"ev": "fault", "kind": kind, "r": r})
                if kind == "ro":
                    ro.add(r)
                elif kind == "rw":
                    ro.discard(r)
                elif kind == "unmount":
                    mounted.discard(r)
                elif kind == "mount":
                    mounted.add(r)
                    ro.discard(r)
                elif kind == "voldelete":
                    mounted.discard(r)
                    member.discard(r)
        # end in service, so that what an unmounted copy holds is observed
        for r in sorted(member - mounted):
            ops.append({"ev": "fault", "kind": "mount", "r": r})
        out.append((n, rng.choice(REPL[n]), vttl, ops))
    return out


def retry_patterns(rng, count):
    """a replica fails while X is uploaded (the attempt fails after the primary's local write), recovers, and the
    upload is repeated - the same bytes with the same or other metadata, or other bytes - through the same or another
    copy; then everything is mounted and observed"""
    out = []
    for i in range(count):
        n = rng.choice([2, 2, 3])
        to = rng.randrange(n)
        bad = rng.choice([r for r in range(n) if r != to])
        down, up = rng.choice([("ro", "rw"), ("unmount", "mount")])
        k = rng.choice([1, 2])
        d = rng.choice(["a", "b", "j", "L", "r", "z", "p", "h"])
        meta = dict(name=rng.choice(["n0", "n1", "n3", "n5"]), mime=rng.choice(["y0", "y1", "y3"]),
                    pairs=rng.choice(["p0", "p1"]), ts=rng.choice(["old", "old", "none"]), ttl="",
                    gz=rng.random() < 0.2, **rand_way(rng, 0.4))
        ops = []
        if rng.random() < 0.5:      # warm the location cache / have an older blob everywhere
            ops.append(upload(to, k, "c1", rng.choice(["a", "b"]), name="n5", mime="y3"))
        ops.append({"ev": "fault", "kind": down, "r": bad})
        ops.append(upload(to, k, "c1", d, **meta))
        ops.append({"ev": "fault", "kind": up, "r": bad})
        x = rng.random()
        to2 = to if rng.random() < 0.8 else rng.choice([r for r in range(n) if r != to])
        if x < 0.6:
            ops.append(upload(to2, k, "c1", d, **meta))                       # the identical blob again
        elif x < 0.85:
            ops.append(upload(to2, k, "c1", d, **dict(meta, name="n2", ts="none")))   # same bytes, other metadata
        else:
            ops.append(upload(to2, k, "c1", rng.choice(["a", "b"]), **meta))
        if rng.random() < 0.4:
            ops.append({"ev": "delete", "to": to, "k": k, "c": "c1"})
        out.append((n, rng.choice(REPL[n]), "", ops))
    return out


def entry_ways(rng, count):
    """directed: the same file id written through the client library - operation.Upload with a plain reader / a
    BytesReader, operation.UploadData, each plain or encrypted, the input as it is or already gzipped
    (isInputCompressed), under names and mime types for which doUploadData compresses (text/*, sniffed text, a
    compressible head of > 16 KiB without a type) or does not (image/*, an opaque type, an incompressible head) -
    then overwritten through another way, with a replica failing in between now and then, and deleted"""
    combos = []
    for via in LIB_WAYS:
        for cipher in (False, True):
            for gz in (False, True):
                for d, name, mime in (("a", "n1", "y0"), ("L", "n0", "y1"), ("h", "n6", "y0"), ("j", "n3", "y6"),
                                      ("p", "n2", "y2"), ("r", "n5", "y3"), ("B", "n5", "y0"), ("R", "n0", "y0"),
                                      ("L", "n4", "y4"), ("Z", "n1", "y0"), ("z", "n0", "y5"), ("e", "n1", "y1"),
                                      ("b", "nL", "y3")):
                    combos.append((via, cipher, gz, d, name, mime))
    out = []
    for via, cipher, gz, d, name, mime in rng.sample(combos, min(count, len(combos))):
        n = rng.choice([2, 2, 3])
        to = rng.randrange(n)
        pairs, ts = rng.choice(["p0", "p1", "p2"]), rng.choice(["none", "old"])
        ops = [upload(to, 1, "c1", d, name=name, mime=mime, pairs=pairs, ts=ts, gz=gz, via=via, cipher=cipher)]
        ops.append(upload(rng.randrange(n), 2, "c1", rng.choice(["a", "L", "j"]), name=name, mime=mime, pairs="p1", gz=not gz,
                          via=rng.choice(LIB_WAYS), cipher=not cipher))
        x = rng.random()
        if x < 0.35:
            bad = rng.choice([r for r in range(n) if r != to])
            down, up = rng.choice([("ro", "rw"), ("unmount", "mount")])
            ops.append({"ev": "fault", "kind": down, "r": bad})
            ops.append(upload(to, 1, "c1", rng.choice(["b", d]), name=name, mime=mime, pairs=pairs, ts=ts, gz=gz, via=via,
                              cipher=cipher))
            ops.append({"ev": "fault", "kind": up, "r": bad})
        # the same file id once more: the same bytes the same way (a plain one finds the copies unchanged, an
        # encrypted one never does), or by another way
        w2 = {"via": via, "cipher": cipher} if rng.random() < 0.4 else rand_way(rng, 0.7, 0.5)
        ops.append(upload(rng.randrange(n), 1, "c1", d if rng.random() < 0.7 else "b", name=name, mime=mime, pairs=pairs,
                          ts=ts, gz=gz if w2["via"] != "mp" else False, **w2))
        if rng.random() < 0.3:
            ops.append(upload(rng.randrange(n), 1, "c1", rng.choice(["L", "a", "B"]), name=name, mime=mime, pairs=pairs, ts=ts,
                              gz=gz, via="ereader", cipher=cipher))
        if rng.random() < 0.5:
            ops.append({"ev": "delete", "to": rng.randrange(n), "k": rng.choice([1, 2]), "c": "c1"})
        out.append((n, rng.choice(REPL[n]), "", ops))
    return out


def nontrivial(lines):
    ok = sum(1 for s in lines if ('"ev":"upload"' in s or '"ev":"delete"' in s) and '"res":"ok"' in s)
    ok += sum(1 for s in lines if '"ev":"race"' in s and '"res1":"ok"' in s and '"res2":"ok"' in s)
    return ok >= 1 and len(lines) >= 5


def mutate(evs):
    """binding self-test: after a successful upload, one replica's name is altered in the recorded snapshot"""
    last_ok = None
    for i, e in enumerate(evs):
        if e["ev"] in ("upload", "delete", "fault", "race"):
            last_ok = e if e["ev"] == "upload" and e.get("res") == "ok" and e.get("d") != "e" else None
        elif e["ev"] == "snap" and last_ok is not None and e["k"] == last_ok["k"]:
            if len(e["obs"]) >= 2 and all(o["st"] == "data" and o["d"] != "e" for o in e["obs"]):
                m = json.loads(json.dumps(evs))
                m[i]["obs"][-1]["name"] = m[i]["obs"][-1]["name"] + ".corrupted"
                return m
    return None


def run(ctx):
    ctx.sany("ReplWrite", "ReplImpl", "ReplWriteTrace")
    th = ctx.thorough
    # 1. layer B (ReplicatedWrite / ReplicatedDelete with a location cache, per-replica transient failures, read-only /
    #    unmounted / deleted copies) refines layer A modulo the listed deviations; Agreement = the statement on the model
    runs = [
        ("MC_C40_n2", base_consts(MaxOps=6 if th else 4), None),
        # without empty payloads and metadata rewrites no deviation of the C01 family is needed
        ("MC_C40_strict", base_consts(BKF={"C40-forwarder-skips-copies"}, Datas={"a", "b"}, MetaSet={"m1"},
                                      MaxOps=6 if th else 4), None),
        # the model of the code before the fix (replicate request acknowledged by a server without the volume)
        # violates the statement: the invariant is able to see it
        ("MC_C40_ackmissing", base_consts(AckMissing=True), "Agreement"),
        # a primary that does not forward a write it found unchanged locally: the replica that missed the earlier,
        # failed attempt never gets the blob - no deviation may admit that
        ("MC_C40_skipunchanged", base_consts(SkipFanoutUnchanged=True, Datas={"a"}, MaxOps=2), "SnapsAdmitted"),
        # two uploads for one file id at the same time: every copy may end with either blob - admitted only through
        # the named deviation; without it the invariant is violated (model-predicted, reproduced on the real servers)
        ("MC_C40_race", base_consts(WithRace=True, Datas={"a", "b"}, MetaSet={"m1"}, WithTransient=False,
                                    Faults={"ro", "rw"}, MaxOps=3 if th else 2,
                                    BKF={"C40-concurrent-overwrites-diverge", "C01-unchanged-keeps-metadata"}), None),
        ("MC_C40_race_strict", base_consts(WithRace=True, Datas={"a", "b"}, MetaSet={"m1"}, WithTransient=False,
                                           Faults=set(), MaxOps=2, BKF=set()), "SnapsAdmitted"),
    ]
    # the ways an upload enters: multipart as typed, operation.Upload / UploadData (sniffing, compressing or passing a
    # compressed input on), the same encrypted (fresh key per upload, the client holds the keys its uploads returned)
    all_ways = {"mp", "reader", "cipher"}
    # (second in the queue: the longest runs start first)
    runs.insert(1, ("MC_C40_ways", base_consts(Ways=all_ways, MetaSet={"m0", "m1", "m2"}, MaxOps=4 if th else 3), None))
    runs += [
        # seeded defects as model switches: the fan-out encrypts once more (every replica under a key of its own);
        # the reader way drops the gzip flag of a compressed input (every copy holds the same undecodable bytes:
        # only the promise about the content sees it, agreement does not)
        ("MC_C40_reencrypt", base_consts(Ways={"cipher"}, ReEncrypt=True, Datas={"a"}, MetaSet={"m1"}, WithTransient=False,
                                         Faults=set(), MaxOps=2), ["SnapsAdmitted", "Agreement"]),
        ("MC_C40_gzlost", base_consts(Ways={"reader"}, DropGzFlag=True, Datas={"a"}, MetaSet={"m2"}, WithTransient=False,
                                      Faults=set(), MaxOps=2), ["SnapsAdmitted", "Agreement"]),
    ]
    if th:
        runs.append(("MC_C40_n3", base_consts(N=3, MaxOps=4), None))
        runs.append(("MC_C40_ways_n3", base_consts(N=3, Ways=all_ways, Datas={"a"}, MetaSet={"m0", "m2"}, MaxOps=3), None))
        runs.append(("MC_C40_n3_k2", base_consts(N=3, Keys={1, 2}, Datas={"a"}, MetaSet={"m0"}, MaxOps=4,
                                                 BKF={"C40-forwarder-skips-copies"}), None))
        runs.append(("MC_C40_nocount", base_consts(NoCountCheck=True, WithTransient=False), "Agreement"))

    if os.environ.get("VERIF_SKIP_MC"):     # development aid for mutant runs: generate, drive and judge only
        runs = []

    def mc(item):
        name, cons, expect = item
        inst = ctx.instance(name, "ReplImpl", "ReplImpl_mc.cfg", cons)
        ctx.model_check(inst, workers=2, timeout=1500, expect_violation=expect, label=name)

    # 2. behaviours: TLC witnesses (one shortest history per implementation state and incoming operation), no
    #    transient failures (the kit cannot inject them), + seeded random executions over the full token universe
    rng = random.Random(ctx.seed)
    scripts = []
    g2 = ctx.instance("G2_C40_n2", "ReplImpl", GEN_W, base_consts(MaxOps=4 if th else 3, WithTransient=False, WithRace=True,
                                                                  Datas={"e", "a", "b"}, Ways={"mp", "reader"} if th else {"mp"},
                                                                  MetaSet={"m0", "m1", "m2"} if th else {"m0", "m1"}))
    g3 = ctx.instance("G2_C40_n3", "ReplImpl", GEN_W, base_consts(N=3, MaxOps=3, WithTransient=False, Datas={"a", "e"},
                                                                  MetaSet={"m0", "m1"} if th else {"m1"}))
    # one witness per (implementation state incl. the client's key, incoming operation) with every way
    gw = ctx.instance("G2_C40_ways", "ReplImpl", GEN_W, base_consts(MaxOps=3, WithTransient=False, Datas={"a", "e"},
                                                                    MetaSet={"m0", "m1", "m2"} if th else {"m0", "m2"},
                                                                    Ways=all_ways))
    # model checking and generation run side by side (each TLC with 2 workers)
    with ThreadPoolExecutor(max_workers=4) as pool:
        f2 = pool.submit(ctx.generate, g2, workers=2, timeout=1200)
        f3 = pool.submit(ctx.generate, g3, workers=2, timeout=1200)
        fw = pool.submit(ctx.generate, gw, workers=2, timeout=1200)
        list(pool.map(mc, runs))
        h2, h3, hw = f2.result(), f3.result(), fw.result()
    hw = [h for h in hw if any(op.get("way", "mp") != "mp" for op in h)]
    h2 = rng.sample(h2, min(len(h2), 1500 if th else 100))
    h3 = rng.sample(h3, min(len(h3), 1000 if th else 70))
    hw = rng.sample(hw, min(len(hw), 600 if th else 50))
    for h in h2 + hw:
        scripts.append((2, rng.choice(REPL[2]), "", from_model(h, rng)))
    for h in h3:
        scripts.append((3, rng.choice(REPL[3]), "", from_model(h, rng)))
    scripts += random_hists(rng, 1000 if th else 110, 12)
    scripts += retry_patterns(rng, 400 if th else 40)
    scripts += gzip_looking(rng, 32 if th else 12)
    scripts += entry_ways(rng, 156 if th else 40)
    ctx.notes["generated"] = {"witness_n2": len(h2), "witness_n3": len(h3), "witness_ways": len(hw),
                              "random": 1000 if th else 110,
                              "retry_patterns": 400 if th else 40, "gzip_looking": 32 if th else 12,
                              "entry_ways": 156 if th else 40}

    script = os.path.join(ctx.out, "script.ndjson")
    if ctx.replay:
        script = ctx.replay
    else:
        with open(script, "w") as f:
            for n, repl, vttl, ops in scripts:
                f.write(json.dumps({"ev": "reset", "repl": repl, "vttl": vttl, "n": n, "keys": [1, 2]}) + "\n")
                for op in ops:
                    f.write(json.dumps(op) + "\n")
    binp = ctx.build("c40")
    trace = ctx.drive(binp, ["--script", script], timeout=2400)
    ctx.judge("ReplWriteTrace", trace, "trace_base.cfg", {}, nontrivial=nontrivial, mutate=mutate,
              chunk_events=9000 if th else 1200)
    ctx.rule = ("executions = TLC-generated witness histories of ReplImpl (one per (copies, read-only flags, location cache, "
                "mounted/deleted copies, last op) for 2 and 3 copies: uploads and deletes through any copy as the primary, "
                "concurrent upload pairs, "
                "mark read-only/writable, unmount, mount, delete a copy) + seeded random executions of length 12 over 10 "
                "payloads (text, json, html, png, binary, gzip-looking, 3 KiB, empty) x 9 names x 8 mimes x pairs x ts x ttl "
                "x client-gzipped x fsync on volumes with replication 001/010/100/002/011/110/200 + retry patterns (a replica is "
                "read-only / unmounted while X is uploaded, recovers, X is uploaded again) + entry ways (the same file id "
                "through operation.Upload with a plain reader / a BytesReader and operation.UploadData, plain or encrypted, "
                "input as it is or already gzipped, names / mimes / payloads for which the client library compresses or "
                "does not, then overwritten through another way, now and then with a failing replica, and deleted); every "
                "upload of the random, retry and witness executions enters by one of these ways too; after every operation "
                "every copy's needle (store level) and HTTP view is recorded for every key; non-trivial = at least one "
                "operation reported successful; distinct by hash of the recorded execution")
    ctx.exhaustive = False
    ctx.assumptions += [
        "replicas are the volume's copies on 2-3 real in-process volume servers; the locations are served by the kit's "
        "stand-in master; operation.Lookup's 10-minute location cache is process-wide (shared by the in-process servers)",
        "replica failures are injected as: copy marked read-only, copy unmounted (and mounted again), copy deleted; "
        "transient per-request failures are explored in the model only",
        "an unmounted copy is still a replica: it is compared as soon as it is mounted again",
        "payloads and metadata come from a token table; decoded content equality is byte equality decided by the "
        "driver's token lookup (hash for unknown content); last-modified times are compared between replicas as "
        "recorded (seconds)",
        "an encrypted needle is decoded by the driver with the keys the upload results of that file id carried in "
        "this execution (AES-GCM: a key either opens the stored bytes or it does not); the observation names the key, "
        "the specification demands the one this upload returned, the uploaded bytes and one ciphertext on all replicas",
        "on a volume with a ttl of its own the random executions use no client timestamp from 2020: a copy whose "
        "newest needle is older than the volume's ttl is an expired volume, which its server deletes within a second",
    ]
