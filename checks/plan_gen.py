"""Input generation shared by checks/C15.py and checks/C16.py: cluster snapshots for the
shell planners. Only INPUTS are produced here (python-side G4 and the conversion of
TLC-generated build histories into snapshots); what the planners may do with them is
decided by spec/PlanCheck.tla alone."""

RP_COMMON = [(0, 0, 0), (0, 0, 1), (0, 1, 0), (1, 0, 0), (0, 1, 1), (1, 1, 0)]
RP_MORE = [(0, 0, 2), (0, 2, 0), (2, 0, 0), (1, 0, 1), (0, 1, 2), (0, 2, 1), (1, 2, 0), (2, 1, 0), (1, 1, 1), (0, 3, 0)]


def topology(rng, max_servers=12, unique_racks=True, dcs=(1, 3), racks=(1, 3), per_rack=(1, 3)):
    """-> list of (id, dc, rack)"""
    servers = []
    ndc = rng.randint(*dcs)
    n = 0
    for d in range(1, ndc + 1):
        for r in range(1, rng.randint(*racks) + 1):
            for _ in range(rng.randint(*per_rack)):
                if n >= max_servers:
                    break
                n += 1
                rack = ("d%dr%d" % (d, r)) if unique_racks else ("r%d" % r)
                servers.append(("s%d" % n, "d%d" % d, rack))
    return servers


def place(rng, servers, rp, weight):
    """Try to build a replica set for rp = (x, y, z) the way the master grows volumes: main dc /
    main rack / other racks / other dcs. Returns a list of server ids or None. `weight` skews
    the choice towards hot servers."""
    x, y, z = rp
    by_dc = {}
    for s in servers:
        by_dc.setdefault(s[1], {}).setdefault(s[2], []).append(s[0])

    def pick(lst, k):
        lst = list(lst)
        out = []
        for _ in range(k):
            if not lst:
                return None
            w = [weight.get(i, 1.0) if isinstance(i, str) else 1.0 for i in lst]
            c = rng.choices(lst, weights=w)[0]
            lst.remove(c)
            out.append(c)
        return out

    dcs = [d for d in by_dc if len(by_dc[d]) >= y + 1 and any(len(v) >= z + 1 for v in by_dc[d].values())]
    rng.shuffle(dcs)
    for d in dcs:
        if len(by_dc) < x + 1:
            return None
        mains = [r for r in by_dc[d] if len(by_dc[d][r]) >= z + 1]
        main = rng.choice(mains)
        res = pick(by_dc[d][main], z + 1)
        others = [r for r in by_dc[d] if r != main]
        rng.shuffle(others)
        for r in others[:y]:
            res += pick(by_dc[d][r], 1)
        odcs = [e for e in by_dc if e != d]
        rng.shuffle(odcs)
        for e in odcs[:x]:
            res += pick([i for v in by_dc[e].values() for i in v], 1)
        if len(res) == x + y + z + 1:
            return res
    return None


def c15_snapshot(rng, kind, big=False):
    """A random snapshot with normal volumes. kind: 'balance' | 'evacuate' | 'fix'."""
    if kind == "balance" and rng.random() < 0.15:
        return c15_pair_snapshot(rng)
    servers = topology(rng, max_servers=14 if big else 9, unique_racks=rng.random() < 0.8)
    has_ssd = {s[0]: rng.random() < 0.35 for s in servers}
    hot = {s[0]: rng.choice([1, 1, 1, 4, 10]) for s in servers}
    pile = kind == "balance" and rng.random() < 0.3    # most volumes on two servers, room elsewhere: long plans
    if pile:
        for s in rng.sample(servers, min(2, len(servers))):
            hot[s[0]] = 60
    reps = []
    nvol = rng.randint(2, 24 if big else 10)
    rps = RP_COMMON * 3 + RP_MORE
    for vid in range(1, nvol + 1):
        rp = rng.choice(rps)
        if kind == "balance" and rng.random() < 0.35:
            rp = (0, 0, 0)
        dt = "ssd" if (rng.random() < 0.25 and sum(has_ssd.values()) >= 2) else "hdd"
        pool = [s for s in servers if dt == "hdd" or has_ssd[s[0]]]
        copies = sum(rp) + 1
        on = place(rng, pool, rp, hot)
        r = rng.random()
        under = {"balance": 0.05, "evacuate": 0.05, "fix": 0.6}[kind]
        over = {"balance": 0.08, "evacuate": 0.05, "fix": 0.06}[kind]
        if on is None or r < 0.05:
            k = min(len(pool), rng.choice([copies, copies, max(1, copies - 1)]))
            on = [s[0] for s in rng.sample(pool, k)]
        elif r < 0.05 + under and copies > 1:
            rng.shuffle(on)
            on = on[:rng.randint(1, copies - 1)]
        elif r < 0.05 + under + over:
            extra = [s[0] for s in pool if s[0] not in on]
            if extra:
                on = on + [rng.choice(extra)]
        col = rng.choice(["", "c1", "c1", "c2"])
        ro = rng.random() < 0.25
        size = rng.choice([1, 5, 12, 29, 30, 40])
        for s in on:
            reps.append({"vid": vid, "srv": s, "dt": dt, "rp": list(rp), "col": col,
                         "ro": (not ro) if rng.random() < 0.06 else ro,
                         "size": size + (rng.randint(0, 3) if rng.random() < 0.2 else 0),
                         "mod": rng.randint(1, 5), "rev": rng.choice([0, 0, 1])})
    cnt = {}
    for r in reps:
        cnt[(r["srv"], r["dt"])] = cnt.get((r["srv"], r["dt"]), 0) + 1
    slack = [0, 0, 1, 1, 2, 6] if kind != "balance" else ([2, 4, 8] if pile else [0, 0, 1, 2, 4, 8])
    srv = []
    for s in servers:
        srv.append({"id": s[0], "dc": s[1], "rack": s[2],
                    "hdd": cnt.get((s[0], "hdd"), 0) + rng.choice(slack),
                    "ssd": (cnt.get((s[0], "ssd"), 0) + rng.choice(slack)) if has_ssd[s[0]] else -1})
    return {"servers": srv, "reps": reps, "shards": []}


def c15_pair_snapshot(rng):
    """Balance snapshots with long plans that move BOTH replicas of a volume: k volumes of 010 (or 100)
    replicated on two loaded servers in different racks (data centers), empty servers with room in a
    third rack (data center) - the second replica is a move candidate towards the place the first
    one went to."""
    by_dc = rng.random() < 0.4
    rp = (1, 0, 0) if by_dc else (0, 1, 0)
    ne = rng.randint(2, 3)
    if by_dc:
        servers = [("n1", "d1", "d1r1"), ("n2", "d2", "d2r1")] + [("e%d" % i, "d3", "d3r1") for i in range(1, ne + 1)]
    else:
        servers = [("n1", "d1", "r1"), ("n2", "d1", "r2")] + [("e%d" % i, "d1", "r3") for i in range(1, ne + 1)]
    if rng.random() < 0.3:
        servers.append(("x1", "d1", "r1"))
    rng.shuffle(servers)
    k = rng.randint(3, 9)
    reps = []
    for vid in range(1, k + 1):
        ro = rng.random() < 0.2
        for sname in ("n1", "n2"):
            reps.append({"vid": vid, "srv": sname, "dt": "hdd", "rp": list(rp), "col": rng.choice(["c1", "c1", ""]) if sname == "n1" else reps[-1]["col"],
                         "ro": ro, "size": vid, "mod": 1, "rev": 0})
    srv = [{"id": s[0], "dc": s[1], "rack": s[2], "hdd": (k + rng.choice([0, 1, 2])) if s[0] in ("n1", "n2") else rng.choice([k, 10, 12]),
            "ssd": -1} for s in servers]
    return {"servers": srv, "reps": reps, "shards": []}


def c15_opt(rng, kind, snap):
    if kind == "balance":
        dcs = sorted({s["dc"] for s in snap["servers"]})
        return {"col": rng.choice(["ALL_COLLECTIONS", "ALL_COLLECTIONS", "EACH_COLLECTION", "c1"]),
                "dc": rng.choice(["", "", "", "", dcs[0]]), "limit": 30}
    if kind == "evacuate":
        loaded = sorted({r["srv"] for r in snap["reps"]}) or [snap["servers"][0]["id"]]
        return {"node": rng.choice(loaded), "skip": rng.random() < 0.8}
    return {}


def hist_to_snapshot(hist):
    """A TLC build history (ops vol / ec / cap of PlanCheck.tla) -> snapshot."""
    servers, reps, ecs = {}, [], {}
    order = []
    for op in hist:
        if op["op"] == "vol":
            for s in sorted(op["on"]):
                reps.append({"vid": op["vid"], "srv": s, "dt": op["dt"], "rp": list(op["rp"]), "col": "c1",
                             "ro": op["ro"], "size": 5, "mod": 1, "rev": 0})
        elif op["op"] == "ec":
            ecs.setdefault((op["vid"], op["srv"]), []).append(op["sh"])
        elif op["op"] == "cap":
            servers[op["srv"]] = {"hdd": op["hdd"], "ssd": op["ssd"]}
            order.append(op["srv"])
    return order, servers, reps, [{"vid": v, "srv": s, "bits": sorted(b), "col": "c1"} for (v, s), b in sorted(ecs.items())]


def c16_givetake_snapshot(rng):
    """Two racks. A nearly full server of rack A holds a whole volume (its rack is over the even-spread
    target, so it gives shards away across racks) while rack B holds whole volumes that have to send
    shards to rack A: the giver is later a receiver, and its free slots matter."""
    nb = rng.randint(1, 3)
    servers = [("a1", "d1", "rA"), ("a2", "d1", "rA")] + [("b%d" % i, "d1", "rB") for i in range(1, nb + 1)]
    if rng.random() < 0.3:
        servers.append(("a3", "d1", "rA"))
    shards = {}
    full = list(range(14))
    shards[(101, "a1")] = set(full if rng.random() < 0.7 else rng.sample(full, rng.randint(9, 13)))
    fill = rng.choice([0, 3, 6, 6, 9])
    if fill:
        shards[(102, "a1")] = set(rng.sample(full, fill))
    shards[(103, "a2")] = set(rng.sample(full, rng.choice([5, 9, 10])))
    v = 110
    for i in range(1, nb + 1):
        for _ in range(rng.randint(1, 2)):
            shards[(v, "b%d" % i)] = set(full)
            v += 1
    n = {s[0]: 0 for s in servers}
    for (vv, sname), b in shards.items():
        n[sname] += len(b)
    srv = []
    for s in servers:
        slack = rng.choice([0, 0, 1]) if s[2] == "rA" else rng.choice([1, 2, 3])
        srv.append({"id": s[0], "dc": s[1], "rack": s[2], "hdd": (n[s[0]] + 9) // 10 + slack, "ssd": -1})
    rng.shuffle(srv)
    col = rng.choice(["c1", ""])
    return {"servers": srv, "reps": [],
            "shards": [{"vid": vv, "srv": sname, "bits": sorted(b), "col": col} for (vv, sname), b in sorted(shards.items())]}


def c16_snapshot(rng, big=False):
    """A random snapshot with erasure-coded volumes (14 shards) and a few normal volumes."""
    if rng.random() < 0.2:
        return c16_givetake_snapshot(rng)
    servers = topology(rng, max_servers=14 if big else 10, unique_racks=True, dcs=(1, 2), racks=(1, 3), per_rack=(1, 4))
    ids = [s[0] for s in servers]
    byrack = {}
    for s in servers:
        byrack.setdefault(s[2], []).append(s[0])
    ecs = {}
    nvol = rng.randint(1, 6 if big else 3)
    for v in range(101, 101 + nvol):
        style = rng.choice(["one", "rack", "random", "even", "two"])
        if style == "one":
            pool = [rng.choice(ids)]
        elif style == "rack":
            pool = byrack[rng.choice(sorted(byrack))]
        elif style == "two":
            pool = rng.sample(ids, min(2, len(ids)))
        else:
            pool = ids
        shards = list(range(14))
        if rng.random() < 0.15:
            shards = rng.sample(shards, rng.randint(8, 13))
        for i, sh in enumerate(shards):
            s = pool[i % len(pool)] if style == "even" else rng.choice(pool)
            ecs.setdefault((v, s), set()).add(sh)
        if rng.random() < 0.3:
            for _ in range(rng.randint(1, 3)):
                sh, s = rng.choice(shards), rng.choice(ids)
                ecs.setdefault((v, s), set()).add(sh)
    reps = []
    vid = 0
    for s in ids:
        for _ in range(rng.choice([0, 0, 1, 2])):
            vid += 1
            reps.append({"vid": vid, "srv": s, "dt": "hdd", "rp": [0, 0, 0], "col": "c1", "ro": False,
                         "size": 5, "mod": 1, "rev": 0})
    nshard = {s: 0 for s in ids}
    for (v, s), b in ecs.items():
        nshard[s] += len(b)
    nv = {s: sum(1 for r in reps if r["srv"] == s) for s in ids}
    srv = []
    for s in servers:
        slack = rng.choice([0, 0, 0, 1, 1, 3])
        srv.append({"id": s[0], "dc": s[1], "rack": s[2], "hdd": nv[s[0]] + (nshard[s[0]] + 9) // 10 + slack, "ssd": -1})
    cols = {v: rng.choice(["c1", "c1", "c2", ""]) for v in range(101, 101 + nvol)}
    return {"servers": srv, "reps": reps,
            "shards": [{"vid": v, "srv": s, "bits": sorted(b), "col": cols[v]} for (v, s), b in sorted(ecs.items())]}
