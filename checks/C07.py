"""C07 - deleting from an EC volume / sorted index marks exactly that needle (SortedIndex.tla).

TLC model-checks the sorted-index-with-journal design, enumerates every index over 4 keys x
every short delete/rebuild history, and judges what harness/cmd/c07 recorded from the real
erasure_coding (.ecx/.ecj, RebuildEcxFile, WriteIdxFileFromEcIndex) and SortedFileNeedleMap
(.sdx/.idx) code, under the default and the 5BytesOffset build."""
import json
import os
import random

B = 5000000
W = 1 << 32


def offsets(five):
    if five:
        return [5, (1 << 32) + 5, (1 << 39) + 9, 77]
    return [5, (1 << 32) - 1, 9, 77]


SIZES = [1, 3, 77, 1000000, 0]      # 0: the entry of an empty blob (live: not negative, not the tombstone value)


def decorate(rng, kind, ops):
    """add observation operations (they do not change the abstract state) to a delete history"""
    out = []
    for e in ops:
        if e["ev"] == "rebuild":
            e = {"ev": "rebuildinplace"}
        out.append(e)
        r = rng.random()
        if r < 0.15:
            out.append({"ev": "reopen"})
        elif r < 0.3:
            out.append({"ev": "rebuild"})
        elif r < 0.4 and kind == "ec":
            out.append({"ev": "toidx"})
    out.append({"ev": "rebuild"})
    if kind == "ec":
        out.append({"ev": "toidx"})
    return out


def emit(f, build, kind, keys, offs, present, ops, bulk=None):
    r = {"ev": "reset", "build": build, "kind": kind, "keys": [str(k) for k in keys], "offs": [str(o) for o in offs],
         "present": present}
    if bulk:
        r["bulk"] = bulk
    f.write(json.dumps(r) + "\n")
    for e in ops:
        f.write(json.dumps(e) + "\n")


def random_index(rng, noffs, big):
    """a random sorted index: bulk keys B + 10*i plus token keys at random ranks, absent probe keys
    below, between and above"""
    n = rng.choice([0, 1, 2, 3, 5, 8, 13, 21, 34, 55]) if not big else rng.choice([1000, 4096, 10000])
    ntok = rng.randint(1, 7)
    cand = [B - 5] + [B + 10 * i + 5 for i in range(n)] + [B + 10 * n + 3, B + W + 5, (1 << 63) + 5]
    toks = sorted(rng.sample(cand, min(ntok, len(cand))))
    absent = [k + 1 for k in rng.sample(toks, min(2, len(toks)))] + [B - 9, (1 << 63) + 99]
    keys = sorted(set(toks + absent))
    pres = [{"k": keys.index(k), "o": rng.randrange(1, noffs), "s": rng.choice(SIZES)} for k in toks]
    rng.shuffle(pres)
    bulk = {"base": str(B), "n": n, "stride": 10} if n else None
    return keys, pres, bulk


def drive_parallel(ctx, binp, script, name, n):
    """split the script into n parts (round robin over executions) and run n driver processes"""
    from concurrent.futures import ThreadPoolExecutor
    parts = [[] for _ in range(n)]
    i = -1
    with open(script) as f:
        for line in f:
            if '"ev": "reset"' in line[:40] or '"ev":"reset"' in line[:40]:
                i += 1
            parts[i % n].append(line)
    parts = [p for p in parts if p]
    paths = []
    for j, p in enumerate(parts):
        pp = os.path.join(ctx.out, "%s-part%d.script" % (name, j))
        with open(pp, "w") as f:
            f.writelines(p)
        paths.append(pp)
    with ThreadPoolExecutor(max_workers=n) as pool:
        outs = list(pool.map(lambda jp: ctx.drive(binp, ["--script", jp[1]], name="%s-part%d" % (name, jp[0])),
                             enumerate(paths)))
    trace = os.path.join(ctx.out, name + ".ndjson")
    with open(trace, "w") as w:
        for o in outs:
            with open(o) as f:
                w.write(f.read())
            os.remove(o)
    for pp in paths:
        os.remove(pp)
    return trace


def run(ctx):
    ctx.sany("SortedIndex", "SortedIndexTrace")
    th = ctx.thorough
    rng = random.Random(ctx.seed)
    mc = ctx.instance("MC_SortedIndex", "SortedIndex", "SortedIndex_mc.cfg", {"NKeys": 4, "MaxOps": 5 if th else 4})
    ctx.model_check(mc, workers=4, label="every index over 4 keys x every delete/rebuild history")
    g1 = ctx.instance("G1_SortedIndex", "SortedIndex", "SPECIFICATION Spec\nINVARIANT Emit\nCHECK_DEADLOCK FALSE",
                      {"NKeys": 4, "MaxOps": 4 if th else 3})
    hists = ctx.generate(g1, workers=4)
    ctx.notes["histories"] = {"G1_indexes_x_histories": len(hists)}
    tokens4 = [[B, B + 1, B + 2, B + 3], [B, B + W, B + 2 * W, (1 << 63) + 1], [7, B, B + 99999, B + W - 1]]
    builds = [("default", ("verif",), False), ("5BytesOffset", ("verif", "5BytesOffset"), True)]
    for bname, tags, five in builds:
        offs = offsets(five)
        script = os.path.join(ctx.out, "script-%s.ndjson" % bname)
        n_exec = 0
        if ctx.replay:
            script = ctx.replay
            with open(script) as f:
                if json.loads(f.readline()).get("build", bname) != bname:
                    continue
        else:
            with open(script, "w") as f:
                # (a) TLC: every index over 4 keys x every history (a sample in the quick tier)
                share = 0.5 if th else (0.15 if not five else 0.08)
                for h in hists:
                    if rng.random() > share:
                        continue
                    keys = rng.choice(tokens4)
                    pres = [{"k": k, "o": rng.randrange(1, len(offs)), "s": rng.choice(SIZES)} for k in h["present"]]
                    rng.shuffle(pres)
                    kind = rng.choice(["ec", "ec", "sdx"])
                    emit(f, bname, kind, keys, offs, pres, decorate(rng, kind, h["ops"]))
                    n_exec += 1
                # (b) random indexes of varying sizes, every token key (present and absent) deleted in turn
                for i in range((1500 if th else 70) // (2 if five and not th else 1)):
                    keys, pres, bulk = random_index(rng, len(offs), big=(i % 25 == 24))
                    order = list(range(len(keys)))
                    rng.shuffle(order)
                    ops = [{"ev": "del", "k": k} for k in order]
                    if rng.random() < 0.5:
                        ops.insert(rng.randrange(len(ops)), {"ev": "rebuild"})   # -> rebuildinplace
                    if rng.random() < 0.3:
                        ops.append({"ev": "del", "k": rng.choice(order)})       # delete again
                    kind = rng.choice(["ec", "ec", "sdx"])
                    emit(f, bname, kind, keys, offs, pres, decorate(rng, kind, ops), bulk)
                    n_exec += 1
                # (c) every rank in every file size: n entries, the token at rank r deleted
                for n in range(1, (41 if th else 14)):
                    for r in range(n):
                        if not th and rng.random() > 0.35:
                            continue
                        tk = B + 10 * r - 5
                        keys = [tk, tk + 2]
                        pres = [{"k": 0, "o": 1 + (n + r) % (len(offs) - 1), "s": SIZES[(n + r) % len(SIZES)]}]
                        kind = "sdx" if (n + r) % 3 == 0 else "ec"
                        ops = [{"ev": "del", "k": 1}, {"ev": "del", "k": 0}, {"ev": "rebuild"}]
                        if kind == "ec":
                            ops.append({"ev": "toidx"})
                        emit(f, bname, kind, keys, offs, pres, ops,
                             {"base": str(B), "n": n - 1, "stride": 10} if n > 1 else None)
                        n_exec += 1
        binp = ctx.build("c07", tags=tags)
        trace = drive_parallel(ctx, binp, script, "trace-" + bname, 4)

        def mutate(evs):
            # a deleted entry that still shows its size must be rejected
            for i, e in enumerate(evs):
                if e["ev"] == "snap":
                    js = [j for j, g in enumerate(e["raw"]) if g["s"] < 0]
                    if js:
                        mm = [dict(x) for x in evs]
                        rr = [dict(g) for g in e["raw"]]
                        rr[js[0]]["s"] = 3
                        mm[i]["raw"] = rr
                        return mm
            return None

        ctx.judge("SortedIndexTrace", trace, "trace_base.cfg", {"NKeys": 0, "MaxOps": 0},
                  nontrivial=lambda e: any('"ev":"del"' in x for x in e) and any('"s":-1' in x for x in e),
                  mutate=mutate, label=bname, jobs=6)
        ctx.notes.setdefault("executions_per_build", {})[bname] = n_exec
    ctx.rule = ("executions = (a) sorted indexes over 4 token keys (16 subsets present) x histories of deletes "
                "and in-place journal applications of length 3-4 enumerated by TLC (15 % / 50 % sample of the enumeration), on three tables of real keys "
                "(adjacent, 2^32 apart, spread); (b) random indexes of 0-55 and 1000-10000 bulk entries with 1-7 token "
                "keys at random ranks, every token key (present and absent) deleted in turn; (c) every rank r of "
                "every file size n <= 13 (40 thorough); kinds: EcVolume over .ecx/.ecj and SortedFileNeedleMap over "
                ".sdx/.idx; default and 5BytesOffset builds; after every delete: lookup of every token key, the raw "
                "entries of the sorted file, byte comparison of all other entries, the journal; rebuild from the "
                "pristine file + journal, in-place rebuild, .idx from .ecx+.ecj loaded by MemDb, reopen; "
                "non-trivial = a present needle was deleted; distinct by hash of the recorded execution")
    ctx.exhaustive = True
    ctx.assumptions += [
        "the sorted file is produced by the real code (in-memory needle map -> .idx -> WriteSortedFileFromIdx / NewSortedFileNeedleMap)",
        "no shard files: only the index side of an EC volume is exercised (reads of needle data are C06)",
        "journalling a key that was not live is admitted (the statement only requires the deletion of a needle to be recorded)",
    ]
