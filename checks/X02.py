"""X02 (spec growth, not one of the listed properties) - live volume move (copy + tail) between two real
volume servers keeps the content: MoveSpec.tla (schedules + design invariant), judge MoveTrace.tla, driver cmove."""
import json
import os
import random


def run(ctx):
    ctx.sany("MoveSpec", "MoveTrace")
    base = {"Keys": {1, 2, 3}, "Datas": {"a", "L"}, "MaxOps": 7 if ctx.thorough else 6}
    mc = ctx.instance("MC_X02", "MoveSpec", "SPECIFICATION Spec\nINVARIANT TargetEqualsSourceWhenDone\nVIEW MCView\nCHECK_DEADLOCK FALSE", base)
    ctx.model_check(mc, workers=4, timeout=900)
    g = ctx.instance("G_X02", "MoveSpec", "SPECIFICATION Spec\nINVARIANT EmitDone\nVIEW View\nCHECK_DEADLOCK FALSE", base)
    h = ctx.generate(g, workers=4, timeout=900)
    rng = random.Random(ctx.seed)
    # prefer schedules with operations between copy and tail
    def between(x):
        i = [j for j, o in enumerate(x) if o["ev"] == "copy"][0]
        return len(x) - i - 2
    h.sort(key=lambda x: -between(x))
    n = 400 if ctx.thorough else 48
    hs = h[:n // 2] + rng.sample(h, min(len(h), n // 2))
    script = os.path.join(ctx.out, "script.ndjson")
    if ctx.replay:
        script = ctx.replay
    else:
        with open(script, "w") as f:
            for x in hs:
                f.write(json.dumps({"ev": "reset", "keys": [1, 2, 3]}) + "\n")
                for op in x:
                    f.write(json.dumps(op) + "\n")
    binp = ctx.build("cmove")
    trace = ctx.drive(binp, ["--script", script], timeout=3000)

    def mutate(evs):
        for i, e in enumerate(evs):
            if e["ev"] == "bread" and e.get("st") == "data":
                m = [dict(x) for x in evs]
                m[i]["st"] = "notfound"
                m[i]["d"] = ""
                return m
        return None

    ctx.judge("MoveTrace", trace, "trace_base.cfg", {}, mutate=mutate,
              nontrivial=lambda ls: any('"ev":"tail"' in s for s in ls))
    ctx.rule = ("executions = TLC-generated move schedules over 3 keys (operations before the copy, a source compaction, the copy, "
                "operations between copy and tail, the tail), preferring those with operations in between, on two real volume "
                "servers over the RPCs LiveMoveVolume uses; every key read on the source after every step and on the target after the tail")
    ctx.assumptions += ["the tail runs with a 1 s idle timeout; non-empty payloads, one cookie"]
