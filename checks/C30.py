"""C30 - mount write buffering preserves POSIX byte semantics
(PosixFile.tla / DirtyPagesImpl.tla, judge PosixFileTrace.tla, driver c30)."""
import json
import os
import random

D2 = "C30-truncate-keeps-dirty-pages"
GEN_W = "SPECIFICATION Spec\nINVARIANT EmitW\nVIEW View\nCHECK_DEADLOCK FALSE"
GEN_ALL = "SPECIFICATION Spec\nINVARIANT Emit\nCHECK_DEADLOCK FALSE"
N = 14          # window of the model's read checks (offsets 0..8, lengths 1..5 end at 13)


def with_probes(ops, buf, rng, span):
    """mount executions: the script carries the reads (the driver records what they return).
    buf = mem: uploads out of AddPage are asynchronous, reads only while nothing is in flight
    (after flush / reopen / a truncate that follows them)."""
    out = []
    clean = True
    for op in ops:
        out.append(op)
        if op["ev"] == "write":
            clean = False
        elif op["ev"] in ("flush", "reopen"):
            clean = True
        if buf == "tmp" or clean:
            out.append({"ev": "read", "off": 0, "n": span})
            o = rng.randrange(0, span)
            out.append({"ev": "read", "off": o, "n": rng.choice([1, 2, 3, 5, span])})
            out.append({"ev": "attr"})
    return out


def ivl_script(ops, rng, span, takes):
    out = []
    for op in ops:
        if op["ev"] != "write":
            continue
        out.append({"ev": "add", "off": op["off"], "data": op["data"]})
        out.append({"ev": "lists"})
        out.append({"ev": "dread", "off": 0, "n": span})
        o = rng.randrange(0, span)
        out.append({"ev": "dread", "off": o, "n": rng.choice([1, 2, 4, span - o])})
        if takes and rng.random() < takes:
            out.append({"ev": "take"})
            out.append({"ev": "lists"})
            out.append({"ev": "dread", "off": 0, "n": span})
    if takes:
        for _ in range(3):
            out.append({"ev": "take"})
        out.append({"ev": "dread", "off": 0, "n": span})
    return out


def random_history(rng, length, maxoff, maxlen, buf, truncs=True):
    """G4: long random histories: offsets / lengths well beyond the chunk limit, appends, overwrites,
    truncations (buf = mem: only right after a flush), flushes, re-opens."""
    ops = []
    k = 0
    clean = True
    end = 0
    for _ in range(length):
        r = rng.random()
        if r < 0.62 or (clean and r < 0.8 and not truncs):
            k += 1
            mode = rng.random()
            if mode < 0.3:
                off = end                       # append
            elif mode < 0.4 and end > 0:
                off = max(0, end - rng.randrange(1, 4))
            else:
                off = rng.randrange(0, maxoff)
            ln = rng.choice([1, 2, 3, 4, 5, maxlen, rng.randrange(1, maxlen + 1)])
            ops.append({"ev": "write", "off": off, "data": [(7 * k + j) % 250 + 1 for j in range(ln)]})
            end = max(end, off + ln)
            clean = False
        elif r < 0.74 and truncs and (buf == "tmp" or clean):
            n = rng.randrange(0, maxoff + maxlen)
            ops.append({"ev": "trunc", "size": n})
            end = n if buf == "mem" else end   # (only a hint for the next append offset)
        elif r < 0.92:
            ops.append({"ev": "flush"})
            clean = True
        else:
            ops.append({"ev": "reopen"})
            clean = True
    return ops


def run(ctx):
    if os.environ.get("VERIF_NO_MC"):      # mutant runs: the model checks do not depend on the code under test
        ctx.model_check = lambda *a, **k: None
    ctx.sany("PosixFile", "DirtyPagesImpl", "PosixFileTrace")
    kf = set(ctx.kf_open.keys())
    rng = random.Random(ctx.seed)
    both = {"tmp", "mem"}
    full = {"Offs": set(range(0, 9)), "Lens": set(range(1, 6)), "TruncSizes": {0, 2, 5, 9}, "Limit": 4, "N": N, "BKF": kf | {D2},
            "Variants": both}
    medium = dict(full, Offs={0, 1, 2, 3, 4, 5, 6, 8}, Lens={1, 2, 4, 5}, TruncSizes={0, 3, 6})
    small = dict(full, Offs={0, 1, 3, 4, 6}, Lens={1, 3, 5}, TruncSizes={0, 3, 6})
    tiny = dict(full, Offs={0, 2, 4}, Lens={1, 3, 5}, TruncSizes={0, 4})
    # layer B (both buffers in one run: the buffer is chosen in the initial state) refines PosixFile - buffer
    # faithful, reads, size attribute, stored chunks after a flush - with the one listed deviation; without it TLC
    # finds the truncation that keeps buffered bytes
    grids = [(medium, 3), (tiny, 4)] if ctx.thorough else [(full, 2), (tiny, 3)]
    for g, depth in grids:
        mc = ctx.instance("MC_C30_%d_%d" % (len(g["Offs"]), depth), "DirtyPagesImpl", "DirtyPagesImpl_mc.cfg", dict(g, MaxOps=depth))
        ctx.model_check(mc, workers=4, timeout=2400, label="both buffers, %d offsets x %d lengths, depth %d, deviation admitted"
                        % (len(g["Offs"]), len(g["Lens"]), depth))
    mcx = ctx.instance("MC_C30_strict", "DirtyPagesImpl", "DirtyPagesImpl_mc.cfg", dict(tiny, Variants={"tmp"}, MaxOps=2, BKF=set()))
    ctx.model_check(mcx, workers=4, expect_violation="NoUnlistedDeviation", label="tmp buffer, strict: truncate-keeps-dirty expected")

    # ---- histories (hist[1] names the buffer) ----
    # quick: witnesses to depth 2 over the whole grid + random walks of the model (depth 6);
    # thorough: witnesses to depth 3 over the whole grid, to depth 4 over the tiny one, every pair of writes, walks
    hists = {"tmp": [], "mem": []}
    writes2 = []
    if not ctx.replay:
        def split(hs):
            for h in hs:
                hists[h[0]["buf"]].append(h[1:])
        g2 = ctx.instance("G2_C30", "DirtyPagesImpl", GEN_W, dict(full, MaxOps=3 if ctx.thorough else 2))
        split(ctx.generate(g2, workers=4, timeout=2400))
        if ctx.thorough:
            g2s = ctx.instance("G2s_C30", "DirtyPagesImpl", GEN_W, dict(tiny, MaxOps=4))
            split(h for h in ctx.generate(g2s, workers=4, timeout=2400) if len(h) == 5)
        g3 = ctx.instance("G3_C30", "DirtyPagesImpl", GEN_ALL, dict(full, MaxOps=6))
        split(ctx.generate(g3, simulate=800 if ctx.thorough else 80, depth=8))
        if ctx.thorough:
            g1 = ctx.instance("G1_C30", "DirtyPagesImpl", GEN_ALL, dict(full, Variants={"tmp"}, TruncSizes=set(), MaxOps=2))
            writes2 = [h[1:] for h in ctx.generate(g1, workers=4, timeout=1200) if all(o["ev"] == "write" for o in h[1:])]

    # buffer executions (cheap): every pair of writes, the witnesses, long random ones
    ivl = os.path.join(ctx.out, "ivl.ndjson")
    wfs = os.path.join(ctx.out, "wfs.ndjson")
    if ctx.replay:
        first = open(ctx.replay).readline()
        ivl, wfs = (ctx.replay, None) if '"mode":"ivl"' in first.replace(" ", "") else (None, ctx.replay)
    else:
        with open(ivl, "w") as f:
            def emit(buf, limit, ops):
                f.write(json.dumps({"ev": "reset", "mode": "ivl", "buf": buf, "limit": limit}) + "\n")
                for op in ops:
                    f.write(json.dumps(op) + "\n")
            for buf in ("mem", "tmp"):
                for h in writes2:
                    emit(buf, 4, ivl_script(h, rng, N, 0))
                hs = rng.sample(hists[buf], min(len(hists[buf]), 3000 if ctx.thorough else 400))
                for h in hs:
                    emit(buf, 4, ivl_script(h, rng, N, 0.3))
                for _ in range(800 if ctx.thorough else 120):
                    emit(buf, 4, ivl_script(random_history(rng, 25, 40, 12, buf, truncs=False), rng, 52, 0.15))
        with open(wfs, "w") as f:
            def emit(buf, limit, cache, ops, span):
                f.write(json.dumps({"ev": "reset", "mode": "wfs", "buf": buf, "limit": limit, "cache": cache,
                                    "cw": rng.random() < 0.5}) + "\n")
                for op in with_probes(ops, buf, rng, span):
                    f.write(json.dumps(op) + "\n")
            for buf, share in (("tmp", 1.0), ("mem", 0.4)):
                hs = [h for h in hists[buf] if any(o["ev"] in ("flush", "reopen") for o in h)]
                hs = rng.sample(hs, min(len(hs), int(share * (600 if ctx.thorough else 110))))
                for h in hs:
                    emit(buf, 4, rng.random() < 0.3, h + [{"ev": "reopen"}], N)
                for _ in range(int(share * (150 if ctx.thorough else 30))):
                    limit = rng.choice([4, 4, 8])
                    emit(buf, limit, rng.random() < 0.3, random_history(rng, 20, 24, 11, buf) + [{"ev": "reopen"}], 36)

    binp = ctx.build("c30")
    cons = {"MaxOps": 0}

    def mutate(evs):
        # one byte of a read that returned data is changed (executions without truncation only)
        if any(e["ev"] == "trunc" for e in evs):
            return None
        for i, e in enumerate(evs):
            if e["ev"] in ("read", "dread") and len(e["got"]) > 1 and any(0 < b < 255 for b in e["got"]):
                j = [k for k, b in enumerate(e["got"]) if 0 < b < 255][-1]
                m = json.loads(json.dumps(evs))
                m[i]["got"][j] = (m[i]["got"][j] % 250) + 1
                return m
        return None

    if ivl:
        t1 = ctx.drive(binp, ["--mode", "ivl", "--script", ivl], name="trace-ivl")
        ctx.judge("PosixFileTrace", t1, "trace_base.cfg", cons, mutate=mutate, label="ivl", chunk_events=10000,
                  nontrivial=lambda ls: sum(1 for s in ls if '"ev":"add"' in s) >= 2)
    if wfs:
        t2 = ctx.drive(binp, ["--mode", "wfs", "--script", wfs], name="trace-wfs", timeout=2400)
        ctx.judge("PosixFileTrace", t2, "trace_base.cfg", cons, mutate=mutate, label="wfs", chunk_events=4000,
                  nontrivial=lambda ls: sum(1 for s in ls if '"ev":"write"' in s) >= 2 and any('"ev":"stored"' in s for s in ls))
    ctx.rule = ("executions = histories of DirtyPagesImpl.tla (writes over offsets 0..8 x lengths 1..5 with chunk limit 4, "
                "truncations, flushes, re-opens): G2 one witness per (interval-list shape, chunk shape, size, buffered set, last "
                "operation) to depth 2 (thorough: 3, and 4 on a smaller grid, and every pair of writes), G3 random walks of the "
                "model of depth 6; plus seeded random histories of 20-25 operations over offsets 0..40, lengths "
                "up to 12, limits 4 and 8.  Buffer executions drive ContinuousIntervals / TempFileDirtyPages alone (lists, "
                "ReadDataAt over the whole span and a random window after every add, RemoveLargest); mount executions drive "
                "FileHandle.Write/Read/Flush/Release, File.Setattr/Attr/Open of a real WFS against the mini-cluster for both "
                "buffers, with two reads and the size after every operation and the stored entry (chunks with their bytes, HTTP "
                "GET) after every flush; non-trivial = >= 2 writes and (mount) a stored entry")
    ctx.exhaustive = True
    ctx.assumptions += ["the mount objects are called the way fs.Server dispatches FUSE requests, without a kernel (no page cache, one request at a time)",
                        "in-memory buffer (not constructed by production code): its uploads out of AddPage are asynchronous, so those "
                        "executions read and truncate only right after a flush",
                        "chunk modification times are recorded as their rank; bytes are 1..250 (0 = hole, 255 = untouched buffer)"]
