"""X01 (spec growth, not one of the listed properties) - the erasure-coding life cycle of a volume on a
real volume server: encode -> (delete, lose shards, rebuild)* -> decode -> write ..., with the blob store
of the volume family as layer A. EcLifecycle.tla (schedules), EcLifeImpl.tla (layer B on VolumeImpl),
judge EcLifeTrace.tla, driver cec."""
import json
import os
import random

import volfam


def run(ctx):
    ctx.sany("EcLifecycle", "EcLifeImpl", "EcLifeTrace")
    base = {"Keys": {1, 2}, "Cookies": {"c1"}, "Datas": {"a", "b"}, "MetaSet": {"m0"}, "VTtl": "", "KF": set(volfam.KF_ALL),
            "Algos": set(), "WithRestart": False, "WithRo": False, "KeyOrderedScanIdx": False}
    # layer B with the repaired decode: reads agree with layer A in both phases, decoded volume writable
    mc = ctx.instance("MC_X01", "EcLifeImpl", "EcLifeImpl_mc.cfg", dict(base, MaxOps=7 if ctx.thorough else 6, DecodeIdxInDataOrder=True))
    ctx.model_check(mc, workers=8, timeout=1800)
    # the same model with the pinned code's decode (index copied from the sorted .ecx) must break both invariants
    old = ctx.instance("MC_X01_old", "EcLifeImpl", "EcLifeImpl_mc.cfg", dict(base, MaxOps=5, DecodeIdxInDataOrder=False))
    ctx.model_check(old, workers=4, timeout=600, expect_violation=("WritableAfterDecode", "EReadsAgree"), coverage=False)
    g2 = ctx.instance("G2_X01", "EcLifecycle", "SPECIFICATION Spec\nINVARIANT EmitW\nVIEW View\nCHECK_DEADLOCK FALSE",
                      {"Keys": {1, 2, 3}, "Datas": {"a", "L"}, "LossSets": {frozenset({0}), frozenset({3, 12}), frozenset({1, 2, 10, 13})},
                       "MaxOps": 7 if ctx.thorough else 6})
    rng = random.Random(ctx.seed)
    h = [x for x in ctx.generate(g2, workers=4, timeout=1800) if any(o["ev"] == "encode" for o in x)]
    h = rng.sample(h, min(len(h), 1200 if ctx.thorough else 120))
    g3 = ctx.instance("G3_X01", "EcLifecycle", "SPECIFICATION Spec\nINVARIANT Emit\nCHECK_DEADLOCK FALSE",
                      {"Keys": {1, 2, 3}, "Datas": {"a", "b", "L"},
                       "LossSets": {frozenset({0}), frozenset({9}), frozenset({3, 12}), frozenset({1, 2, 10, 13}), frozenset({10, 11, 12, 13})},
                       "MaxOps": 14})
    h += ctx.generate(g3, simulate=300 if ctx.thorough else 40, depth=15)
    script = os.path.join(ctx.out, "script.ndjson")
    if ctx.replay:
        script = ctx.replay
    else:
        with open(script, "w") as f:
            for x in h:
                f.write(json.dumps({"ev": "reset", "keys": [1, 2, 3]}) + "\n")
                for op in x:
                    if op["ev"] == "lose":
                        op = dict(op, shards=sorted(op["shards"]))
                    f.write(json.dumps(op) + "\n")
    binp = ctx.build("cec")
    trace = ctx.drive(binp, ["--script", script], timeout=3000)

    def mutate(evs):
        seen_enc = False
        for i, e in enumerate(evs):
            seen_enc = seen_enc or e["ev"] == "encode"
            if seen_enc and e["ev"] == "read" and e.get("st") == "data":
                m = [dict(x) for x in evs]
                m[i]["d"] = "b" if e["d"] != "b" else "a"
                return m
        return None

    ctx.judge("EcLifeTrace", trace, "trace_base.cfg", {}, mutate=mutate,
              nontrivial=lambda ls: any('"ev":"decode"' in s for s in ls) or any('"ev":"rebuild"' in s for s in ls))
    ctx.rule = ("executions = TLC-generated life-cycle histories (write, delete, encode, lose 1-4 shards, rebuild, decode; G2 witnesses + G3 "
                "random depth 14) over 3 keys on a real volume server, phase changes over the volume server RPCs the shell uses, reads / "
                "writes / deletes over HTTP, every key read after every step; non-trivial = contains a decode or a rebuild")
    ctx.assumptions += ["one volume server holds all 14 shards (no remote shard reads); production block sizes, so small volumes use only "
                        "small block rows", "non-empty payloads, one cookie, no metadata"]
