"""C29 - S3 keys never escape their bucket (S3Containment.tla)."""
import json
import os
import random

import vf

# tokens that stand for other segments after the gateway's one URL-decoding
DEC = {"%2e%2e": [".."], "%2E%2E": [".."], ".%2e": [".."], "a%2Fb": ["a", "b"], "..%2Fb2": ["..", "b2"],
       "..%2Foutside%2Fsecret": ["..", "outside", "secret"],
       # double-encoded by the client: after the gateway's decoding the NAME still contains the text of an escape
       "%252e%252e": ["%2e%2e"], "a%252Fb": ["a%2Fb"], "x%252F..%252F..%252Fb2%252Fobj": ["x%2F..%2F..%2Fb2%2Fobj"],
       "%252e%252e%252Fb2%252Fobj": ["%2e%2e%2Fb2%2Fobj"]}
# what a SECOND decoding would make of such a name (only handlers that paste names into filer URLs unescaped do that)
DEC2 = {"%2e%2e": [".."], "a%2Fb": ["a", "b"], "x%2F..%2F..%2Fb2%2Fobj": ["x", "..", "..", "b2", "obj"],
        "%2e%2e%2Fb2%2Fobj": ["..", "b2", "obj"]}
KEYS = [
    ["obj"], ["a", "x"], [".."], [".."] + ["x"], ["a", "..", "..", "x"], ["a", "..", "..", "..", "etc"], ["", "x"],
    ["a", "", "b"], ["a%2Fb"], ["%2e%2e", "%2e%2e", "x"], [".uploads", "u1", "0001.part"], ["a", ""], ["obj", ""],
    ["..", "b2", "obj"], ["..", "..", "outside", "secret"], ["%2e%2e", "b2", "obj"], ["%2E%2E", "%2E%2E", "outside", "secret"],
    [".%2e", "b2", "obj"], ["..%2Fb2", "obj"], ["a", "..", "obj"], [".uploads"], [".uploads", "u1"], [".uploads", "new", "f"],
    ["..", "b2", ".uploads", "u2", "0001.part"], ["a", "..", ".uploads", "u1", "0001.part"], ["."], [".", "obj"],
    ["..", "..", "outside", "dir"], ["..", "..", "outside"], ["..", "b2"], ["..", "b2", "newkey"], ["..", "..", "newtop"],
    ["..", "b1", "obj"],
    # literal percent-escapes in the name (double-encoded on the wire): ordinary names inside the bucket
    ["%252e%252e", "b2", "obj"], ["%252e%252e", "%252e%252e", "outside", "secret"], ["x%252F..%252F..%252Fb2%252Fobj"],
    ["%252e%252e%252Fb2%252Fobj"], ["a%252Fb"], ["%252e%252e"], ["%252e%252e", "b2", "newkey"], ["a", "%252e%252e", "obj"],
    ["%252e%252e", "b2", ".uploads", "u2", "0001.part"],
]
ALPHABET = ["..", "a", "", "b2", "%2e%2e", ".uploads", "%252e%252e"]
UIDS = [["u1"], ["..", "x"], ["a", "b"], ["..", ".."], ["..", "..", "..", "outside"], ["..", "..", "b2"], ["..", "obj"],
        ["..", "a"], ["nosuch"], ["..", "..", "b2", ".uploads", "u2"], ["u1", ".."], ["."], ["..", "..", "..", "outside", "dir"],
        ["%2e%2e", "%2e%2e", "b2"], ["%2e%2e", "%2e%2e", "%2e%2e", "outside"]]
SRCS = [["b1", "obj"], ["b2", "obj"], ["", "b2", "obj"], ["..", "outside", "secret"], ["b1", "..", "b2", "obj"],
        ["b1", "..", "..", "outside", "secret"], ["b1", ".uploads", "u1", "0001.part"], ["b2", ".uploads", "u2", "0001.part"],
        ["..%2Foutside%2Fsecret"], ["%2e%2e", "outside", "secret"], ["b2", "..", "..", "outside", "secret"], ["b1", "a", "x"],
        ["%252e%252e", "outside", "secret"], ["b2", "%252e%252e", "%252e%252e", "outside", "secret"], ["b1", "%252e%252e", "b2", "obj"]]
DKEYS = [["k"], ["obj"], [".."], ["..", "b2", "obj"], ["..", "..", "outside", "secret"], ["a", "x"],
         [".uploads", "u1", "0001.part"], [".uploads"], ["a", "..", "..", "b2"], ["..", "..", "outside", "dir", "f"],
         ["..", "b2"], ["a", "..", "obj"], ["", "obj"], ["..", "..", "outside"]]


PREFIXES = [["..", "b2", ""], ["..", "..", "outside", ""], [".uploads", ""], [".uploads", "u1", ""], ["a", ""],
            ["a", "..", "..", "b2", ""], ["..", ""], ["a", "x"], ["..", "b2", "o"], ["", ""]]


def tup(x):
    return tuple(tup(y) if isinstance(y, list) else y for y in x)


def consts(ctx, maxops):
    dec = vf.Raw("(" + " @@ ".join('%s :> %s' % (vf.tla_lit(k), vf.tla_lit(tuple(v))) for k, v in DEC.items()) + ")")
    dsets = [[k] for k in DKEYS]
    if ctx.thorough:
        dsets += [[a, b] for a in DKEYS for b in DKEYS if a != b]
    else:
        r = random.Random(ctx.seed)
        dsets += [[r.choice(DKEYS), r.choice(DKEYS)] for _ in range(12)]
    dec2 = vf.Raw("(" + " @@ ".join('%s :> %s' % (vf.tla_lit(k), vf.tla_lit(tuple(v))) for k, v in DEC2.items()) + ")")
    return {"B": "b1", "Dec": dec, "Dec2": dec2, "Keys": {tup(k) for k in KEYS}, "Uids": {tup(u) for u in UIDS},
            "Srcs": {tup(s) for s in SRCS}, "DKeySets": {tup(d) for d in dsets},
            "Prefixes": {tup(p) for p in PREFIXES}, "Alphabet": set(ALPHABET),
            "MaxLen": 3 if ctx.thorough else 2, "MaxOps": maxops}


def run(ctx):
    from concurrent.futures import ThreadPoolExecutor
    ctx.sany("S3Containment", "S3ContainmentTrace")
    script = os.path.join(ctx.out, "script.ndjson")
    mc_cfg = open(os.path.join(vf.SPEC, "S3Containment_mc.cfg")).read()
    # one TLC run: model-checks the design properties over the whole request grammar (path algebra,
    # narrowness of the deviation preconditions, satisfiability and non-vacuity of the strict rule)
    # and emits the grammar as the script
    if ctx.replay:
        script = ctx.replay
        binp = ctx.build("c29")
    else:
        g = ctx.instance("G_S3Cont", "S3Containment", mc_cfg + "INVARIANT Emit\n", consts(ctx, 1))
        with ThreadPoolExecutor(max_workers=2) as pool:
            fb = pool.submit(ctx.build, "c29")
            fh = pool.submit(ctx.generate, g, "W", 4, 900)
            hists, binp = fh.result(), fb.result()
        rng = random.Random(ctx.seed)
        all_hists = list(hists)
        ctx.notes["requests_total"] = len(hists)
        if not ctx.thorough:
            # quick: every upload-id / copy-source / batch / bucket / list request, every curated key on every
            # key route, and a seeded third of the enumerated token sequences
            cur = {tup(k) for k in KEYS}
            hists = [h for h in hists if tup(h[0]["ktok"]) in cur or h[0]["ktok"] == ["k"] or rng.random() < 0.34]
        # two-request executions built from the TLC-generated requests: re-tagging an escaping key leaves an
        # orphan entry at the literal path; a later delimiter listing with the matching prefix purges through it
        def find(route, **kw):
            return [h[0] for h in all_hists if h[0]["route"] == route and all(h[0][k] == v for k, v in kw.items())]
        pairs = []
        for k, pfx in ((["..", "..", "outside", "dir"], ["..", "..", "outside", ""]), (["..", "b2"], ["..", ""])):
            for t in find("PutObjectTagging", ktok=k):
                for l in find("ListObjectsV1", ptok=pfx, delim="/") + find("ListObjectsV2", ptok=pfx, delim="/"):
                    pairs.append([t, l])
        rng.shuffle(hists)
        hists += pairs
        ctx.notes["requests"] = len(hists)
        with open(script, "w") as f:
            for h in hists:
                f.write(json.dumps({"ev": "reset"}) + "\n")
                for op in h:
                    f.write(json.dumps(op) + "\n")
    trace = ctx.drive(binp, ["--script", script], timeout=2400)

    def mutate(evs):
        # an ordinary request recorded as having deleted the sentinel outside the bucket
        for i, e in enumerate(evs):
            if e["ev"] == "req" and e["route"] == "PutObject" and e["ktok"] == ["obj"]:
                m = [dict(x) for x in evs]
                m[i]["touched"] = list(e["touched"]) + [{"via": "grpc", "m": "DeleteEntry", "p": ["outside", "secret"], "st": 0}]
                m[i]["outch"] = [["outside", "secret"]]
                return m
        return None

    c = consts(ctx, 0)
    ctx.judge("S3ContainmentTrace", trace, "trace_base.cfg", c,
              nontrivial=lambda e: any('"st":' in x for x in e), mutate=mutate)
    ctx.rule = ("requests = TLC-enumerated grammar: 11 key routes x (curated hostile keys + all token sequences up to "
                "length 2 (thorough 3) over {.., a, empty, b2, %2e%2e, .uploads, %252e%252e}; double-encoded names are literal names), 5 upload-id routes x 13 upload ids, "
                "2 copy routes x 12 copy sources, batch deletes of 1-2 keys, 6 bucket routes, 2 list routes x 10 hostile prefixes x delimiter; each sent to a real "
                "unauthenticated gateway with a second bucket and sentinels outside; non-trivial = some filer call was "
                "made; distinct by hash of the recorded execution")
    ctx.exhaustive = ctx.thorough
    ctx.assumptions += [
        "touched paths: gRPC requests are mapped to the entry the filer handler resolves them to by calling the same "
        "exported helper the handler calls (util.JoinPath for LookupDirectoryEntry/DeleteEntry/UpdateEntry's find, "
        "util.NewFullPath for CreateEntry/UpdateEntry/AppendToEntry, the directory for ListEntries); filer HTTP "
        "requests by their URL path, answers 301 (the filer's ServeMux redirecting an unclean path) not counted",
        "the namespace diff walks the filer store literally from / (skipping /topics, the filer's own log) and is the "
        "ground truth for mutations; entries written under a literal '..' component inside the bucket count as inside",
        "a copy source may legitimately name another bucket: its reads must stay inside the bucket its first segment names",
        "requests are sent one at a time; the namespace is restored after every request that changed it",
    ]
