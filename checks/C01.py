"""C01 - volume blob store: read-your-writes, overwrite, delete, cookie, read-only
(BlobStore.tla layer A, VolumeImpl.tla layer B, judge BlobStoreTrace.tla, driver cvol)."""
import json
import os
import random

import volfam


def run(ctx):
    ctx.sany("BlobStore", "VolumeImpl", "BlobStoreTrace")
    kf_all = volfam.KF_ALL
    base = {"Keys": {1, 2}, "Cookies": {"c1", "c2"}, "VTtl": "", "KF": kf_all, "Algos": set(),
            "WithRestart": True, "WithRo": True, "KeyOrderedScanIdx": False}
    # 1. layer B refines layer A (modulo the listed deviations) over every history up to the bound
    mc = ctx.instance("MC_C01", "VolumeImpl", "VolumeImpl_mc.cfg",
                      dict(base, Datas={"e", "a", "b"} if ctx.thorough else {"e", "a"}, MetaSet={"m0", "m1", "m2"},
                           MaxOps=5 if ctx.thorough else 4))
    ctx.model_check(mc, workers=8, timeout=1500)
    # 2. behaviours
    hists = []
    g2 = ctx.instance("G2_C01", "VolumeImpl", volfam.GEN_W,
                      dict(base, Datas={"e", "a"}, MetaSet={"m0", "m1"}, MaxOps=4 if ctx.thorough else 3))
    h2 = ctx.generate(g2, workers=4, timeout=1200)
    g2b = ctx.instance("G2b_C01", "VolumeImpl", volfam.GEN_W,
                       dict(base, Keys={1}, Cookies={"c1", "c2"}, Datas={"e", "a", "b"}, MetaSet={"m0", "m1", "m2"},
                            MaxOps=4 if ctx.thorough else 3))
    h2b = ctx.generate(g2b, workers=4, timeout=1200)
    rng = random.Random(ctx.seed)
    # a seeded sample of the witness histories (the thorough tier takes ten times more)
    h2 = rng.sample(h2, min(len(h2), 9000 if ctx.thorough else 900))
    h2b = rng.sample(h2b, min(len(h2b), 5000 if ctx.thorough else 500))
    hists += h2 + h2b
    # avoidance share: the same exploration without empty payloads, so that behaviour behind the
    # empty-payload findings is also judged strictly
    g2c = ctx.instance("G2c_C01", "VolumeImpl", volfam.GEN_W,
                       dict(base, Datas={"a", "b"}, MetaSet={"m0", "m1"}, MaxOps=4 if ctx.thorough else 3))
    h2c = ctx.generate(g2c, workers=4, timeout=1200)
    h2c = rng.sample(h2c, min(len(h2c), 5000 if ctx.thorough else 500))
    hists += h2c
    g3 = ctx.instance("G3_C01", "VolumeImpl", volfam.GEN_ALL,
                      dict(base, Datas={"e", "a", "b", "L"}, MetaSet={"m0", "m1", "m2", "m3"}, MaxOps=10))
    hists += ctx.generate(g3, simulate=1500 if ctx.thorough else 150, depth=11)
    hists += volfam.random_hists(rng, 2000 if ctx.thorough else 250, 14, compaction=False)
    hists += volfam.random_hists(rng, 1000 if ctx.thorough else 150, 14, compaction=False, datas=("a", "b", "L"),
                                 metas=("m0", "m1", "m2", "m3"))
    volfam.execute_and_judge(ctx, hists, vttl="")
    ctx.rule = ("executions = TLC-generated histories of VolumeImpl (G2: one witness per (volume state, last op) over 2 keys "
                "x 2 cookies x {empty, small} x {no metadata, name+mime+pairs+timestamp}, and over 1 key with 3 payloads x 3 "
                "metadata sets incl. gzip-stored; G3 random depth 10) + seeded random histories of length 14; ops: write, "
                "delete, reload (unmount+mount), mark read-only/writable; after every operation every (key, cookie) pair is "
                "read back over HTTP; non-trivial = at least one successful write followed by a state-changing operation "
                "on the same key; distinct by hash of the recorded execution")
    ctx.exhaustive = False
    ctx.assumptions += volfam.ASSUMPTIONS
