"""C38 - concurrent volume operations are linearizable per file id (BlobLinTrace.tla, driver cvol --mode conc)."""
import json
import os
import random

import vf


def gen_plans(rng, n):
    out = []
    for _ in range(n):
        procs = rng.choice([2, 2, 3, 3, 4])
        nkeys = rng.choice([1, 2, 2])
        plan = []
        for _p in range(procs):
            ops = []
            for _i in range(rng.randint(2, 5 if procs < 4 else 4)):
                r = rng.random()
                k = rng.randint(1, nkeys)
                c = "c1" if rng.random() < 0.85 else "c2"
                if r < 0.45:
                    ops.append({"op": "write", "k": k, "c": c, "d": rng.choice(["a", "b", "L"]), "m": "m0"})
                elif r < 0.65:
                    ops.append({"op": "delete", "k": k, "c": c, "d": "", "m": ""})
                else:
                    ops.append({"op": "read", "k": k, "c": c, "d": "", "m": ""})
            plan.append(ops)
        out.append({"ev": "reset", "vttl": "", "procs": procs, "keys": list(range(1, nkeys + 1)),
                    "cookies": ["c1", "c2"], "plan": plan})
    return out


def gen_storeplans(rng, n):
    """Store-level plans (the level at which a delete reports whether it removed something): several goroutines
    writing and deleting the same one or two keys directly on the running server's Store"""
    out = []
    for _ in range(n):
        procs = rng.choice([3, 4, 5, 6])
        nkeys = rng.choice([1, 1, 2])
        plan = []
        for _p in range(procs):
            ops = []
            for _i in range(rng.randint(3, 5)):
                r = rng.random()
                k = rng.randint(1, nkeys)
                if r < 0.35:
                    ops.append({"op": "swrite", "k": k, "c": "c1", "d": rng.choice(["a", "b", "L"]), "m": "m0"})
                elif r < 0.8:
                    ops.append({"op": "sdelete", "k": k, "c": "c1", "d": "", "m": ""})
                else:
                    ops.append({"op": "sread", "k": k, "c": "c1", "d": "", "m": ""})
            plan.append(ops)
        out.append({"ev": "reset", "vttl": "", "procs": procs, "keys": list(range(1, nkeys + 1)), "cookies": ["c1"],
                    "pre": [{"op": "swrite", "k": 1, "c": "c1", "d": "a", "m": "m0"}], "plan": plan})
    return out


def gen_readstorms(rng, n):
    """several goroutines re-reading large blobs of equal size but different content, a writer among them:
    a read must return the blob of ITS key (buffers shared between concurrent reads would show here)"""
    out = []
    for _ in range(n):
        procs = rng.choice([3, 4, 4, 5])
        pre = [{"op": "write", "k": 1, "c": "c1", "d": "L", "m": "m0"},
               {"op": "write", "k": 2, "c": "c1", "d": "M", "m": "m0"},
               {"op": "write", "k": 3, "c": "c1", "d": rng.choice(["a", "c"]), "m": "m0"}]
        plan = []
        for p in range(procs):
            ops = []
            for _i in range(rng.randint(10, 16)):
                if p == 0 and rng.random() < 0.2:
                    ops.append({"op": "write", "k": 3, "c": "c1", "d": rng.choice(["a", "c"]), "m": "m0"})
                else:
                    ops.append({"op": "read", "k": rng.choice([1, 2, 3]), "c": "c1", "d": "", "m": ""})
            plan.append(ops)
        out.append({"ev": "reset", "vttl": "", "procs": procs, "keys": [1, 2, 3], "cookies": ["c1"],
                    "pre": pre, "plan": plan})
    return out


def gen_writestorms(rng, n):
    """several goroutines appending large blobs to TWO volumes of one server at the same time (odd keys live in one
    volume, even keys in the other), directly on the Store (tight loops) and over HTTP; every goroutine owns one key
    and reads it back after each write: it must get the blob it has just written, intact (encode buffers shared
    between concurrent appends to different volumes would show here). A third of the storms also share keys."""
    out = []
    for i in range(n):
        procs = rng.choice([4, 6, 6])
        http = i % 3 == 0
        w, rd = ("write", "read") if http else ("swrite", "sread")
        shared = i % 3 == 1
        plan = []
        for p in range(procs):
            ops = []
            for _i in range(rng.randint(4, 6) if http or shared else rng.randint(14, 20)):
                k = 1 + (p + _i) % 2 if shared else p + 1
                ops.append({"op": w, "k": k, "c": "c1", "d": rng.choice(["H", "I", "H", "I", "L", "M"]), "m": "m0"})
                ops.append({"op": rd, "k": k, "c": "c1", "d": "", "m": ""})
            plan.append(ops)
        if not http and not shared:
            # long tight loops, recorded compactly: one burst per goroutine on its own key
            plan = [[{"op": "sburst", "k": p + 1, "c": "c1", "d": "", "m": "m0",
                      "ds": [rng.choice(["H", "I", "H", "I", "L", "M"]) for _ in range(rng.randint(120, 180))]}]
                    for p in range(procs)]
        keys = [1, 2] if shared else list(range(1, procs + 1))
        out.append({"ev": "reset", "vttl": "", "procs": procs, "keys": keys, "cookies": ["c1"], "vols": 2,
                    "pre": [{"op": w, "k": k, "c": "c1", "d": "L" if k % 2 else "M", "m": "m0"} for k in keys[:2]],
                    "plan": plan})
    return out


def gen_delraces(rng, n):
    """per goroutine one key of its own: write a blob, then four Store-level deletes of it at the same moment -
    exactly one of them may report that it removed the blob; repeated 150-250 times, recorded compactly"""
    out = []
    for _ in range(n):
        procs = rng.choice([2, 3])
        plan = [[{"op": "sdelrace", "k": p + 1, "c": "c1", "d": "", "m": "m0", "par": rng.choice([3, 4, 4]),
                  "ds": [rng.choice(["a", "b", "L"]) for _ in range(rng.randint(150, 250))]}] for p in range(procs)]
        out.append({"ev": "reset", "vttl": "", "procs": procs, "keys": list(range(1, procs + 1)), "cookies": ["c1"],
                    "vols": 2, "plan": plan})
    return out


def nontrivial(lines):
    # at least two processes had overlapping operations on the same key, one of them a write or delete
    open_ops = {}
    for s in lines:
        e = json.loads(s)
        if e["ev"] == "call":
            for q, o in open_ops.items():
                if o["k"] == e["k"] and (o["op"] != "read" or e["op"] != "read"):
                    return True
            open_ops[e["p"]] = e
        elif e["ev"] == "ret":
            open_ops.pop(e["p"], None)
    return False


def mutate(evs):
    """binding self-test: a final sequential read that returned data is changed to other data"""
    for i in range(len(evs) - 1, 0, -1):
        e = evs[i]
        if e["ev"] == "ret" and e.get("st") == "data" and e.get("d") in ("a", "b", "L"):
            m = [dict(x) for x in evs]
            m[i]["d"] = "b" if e["d"] != "b" else "a"
            return m
    return None


def run(ctx):
    ctx.sany("BlobStore", "BlobLinTrace")
    # design level: the sequential specification that the linearization must respect is layer A of the
    # volume family; its refinement by the implementation-shaped model is checked here on a small bound
    import volfam
    mc = ctx.instance("MC_C38", "VolumeImpl", "VolumeImpl_mc.cfg",
                      {"Keys": {1, 2}, "Cookies": {"c1", "c2"}, "VTtl": "", "KF": volfam.KF_ALL, "Algos": set(),
                       "WithRestart": False, "WithRo": False, "KeyOrderedScanIdx": False,
                       "Datas": {"a", "b"}, "MetaSet": {"m0"}, "MaxOps": 5 if ctx.thorough else 4})
    ctx.model_check(mc, workers=8, timeout=1500)
    rng = random.Random(ctx.seed)
    binp = ctx.build("cvol", race=ctx.thorough)
    total_rej = 0
    for mode, n in (("conc", 1500 if ctx.thorough else 250), ("conc-batched", 1500 if ctx.thorough else 250)):
        script = os.path.join(ctx.out, mode + "-script.ndjson")
        if ctx.replay:
            script = ctx.replay
        else:
            with open(script, "w") as f:
                for r in gen_plans(rng, n):
                    f.write(json.dumps(r) + "\n")
                for r in gen_readstorms(rng, n // 2):
                    f.write(json.dumps(r) + "\n")
                for r in gen_storeplans(rng, n):
                    f.write(json.dumps(r) + "\n")
                for r in gen_writestorms(rng, max(12, n // 16)):
                    f.write(json.dumps(r) + "\n")
                for r in gen_delraces(rng, max(8, n // 25)):
                    f.write(json.dumps(r) + "\n")
        # the race detector's reports are recorded, not judged (C38 does not state race freedom; the pinned tree
        # has a read/write race on Volume.Version() in every run): keep the driver's exit code at 0
        trace = ctx.drive(binp, ["--script", script, "--mode", mode], name=mode, timeout=3000,
                          env={"GORACE": "exitcode=0"} if ctx.thorough else None)
        errp = os.path.join(ctx.out, mode + ".stderr")
        if ctx.thorough:
            txt = open(errp, errors="replace").read()
            ctx.notes.setdefault("race_reports", {})[mode] = {
                "reports": txt.count("WARNING: DATA RACE"),
                "involving_Volume.Version": txt.count("storage.(*Volume).Version()")}
        total_rej += ctx.judge("BlobLinTrace", trace, "trace_base.cfg", {}, nontrivial=nontrivial, mutate=mutate,
                               label=mode.replace("-", ""), dfs=True, chunk_events=6000)
        if ctx.replay:
            break
    ctx.rule = ("executions = seeded random plans of 2-4 goroutines x 2-5 operations (write/delete/read over 1-2 keys, mostly one "
                "cookie) against one volume of a real volume server over HTTP, through the immediate write path and through the "
                "batched (fsync while stopping) path, followed by sequential reads of every (key, cookie); call/ret logged under one "
                "mutex; TLC searches for linearization points; non-trivial = two operations on the same key overlapped in real "
                "time and one of them was a write or delete; distinct by hash; plus read storms over equal-size blobs and write storms "
                "of 4-6 goroutines appending 720 kB / 3 kB blobs to two volumes of the server at the same time")
    ctx.assumptions += ["payloads are non-empty and carry no metadata (the listed C01 findings are avoided, not admitted)",
                        "real-time order is the order of call/ret events taken under the driver's mutex",
                        "thorough tier builds the driver (and the linked SeaweedFS code) with -race; a DATA RACE report is "
                        "recorded in the evidence notes"]
