"""C08 - persistent identifiers and headers round-trip exactly (Codecs.tla)."""
import json
import os
import random

VALID_EXTRA_BLOB = [10, 8, 8, 10, 16, 4, 26, 2, 1, 2]  # some bytes that happen to be a SuperBlockExtra (input only)


def cp(s):
    return [ord(c) for c in s]


def be(x, n):
    return list(x.to_bytes(n, "big"))


def flat(op):
    """TLC-emitted domain element -> script operation (sbval carries its arguments in `a`)."""
    if op["ev"] == "sbval":
        a = op["a"]
        return {"ev": "sbval", "ver": a["ver"], "p": a["p"], "ttl": a["ttl"], "rev": a["rev"], "extra": a["extra"]}
    return op


def rnd_ttl_strings(rng, n):
    units = ["m", "h", "d", "w", "M", "y"]
    bad_units = ["x", "s", "", "mm", "H", "D", "Y", "W", " ", "µ", "m ", "ms"]
    nums = ["0", "1", "9", "10", "99", "100", "254", "255", "256", "257", "300", "511", "512", "999", "1000", "65535",
            "65536", "65791", "4294967295", "4294967296", "4294967551", "18446744073709551615", "18446744073709551616",
            "99999999999999999999999", "2.5", "1e2", "0x10", "١", "１", "1_0", ""]
    out = []
    for _ in range(n):
        num = rng.choice(nums) if rng.random() < 0.6 else str(rng.randrange(0, 70000))
        s = rng.choice(["", "", "", "+", "-", " ", "0", "00", "000"]) + num
        s += rng.choice(units) if rng.random() < 0.6 else rng.choice(bad_units)
        out.append({"ev": "ttlstr", "s": cp(s)})
    return out


def rnd_bytes(rng, n, zero_prefix=0):
    pool = [0, 0, 1, 15, 16, 127, 128, 255]
    b = [rng.choice(pool) if rng.random() < 0.5 else rng.randrange(256) for _ in range(n)]
    for i in range(min(zero_prefix, n)):
        b[i] = 0
    return b


def rnd_fid(rng, n):
    out = []
    for _ in range(n):
        vid = rnd_bytes(rng, 4, rng.choice([0, 0, 1, 2, 3]))
        key = rnd_bytes(rng, 8, rng.choice([0, 1, 3, 4, 6, 7]))
        if not any(key):
            key[7] = 1
        ck = rnd_bytes(rng, 4, rng.choice([0, 0, 1, 3]))
        out.append({"ev": "fidval", "vid": vid, "key": key, "ck": ck})
        # text variants around the canonical text (inputs only: python does not say what they mean)
        v = int.from_bytes(bytes(vid), "big")
        k = bytes(key).lstrip(b"\0").hex()
        c = bytes(ck).hex()
        txt = "%d,%s%s" % (v, k, c)
        muts = [txt, txt.upper(), "0" + txt, txt.replace(",", ",0", 1), txt.replace(",", ",00", 1), txt[:-1], txt + "0",
                txt.replace(",", ""), txt.replace(",", ",,"), txt.replace(",", ";"), " " + txt, txt + " ", txt + "_1",
                txt + ".jpg", "%d,%s%s" % (v + (1 << 32), k, c), "%d,%s%s" % (v + (1 << 64), k, c), "-" + txt,
                "%d,%s%s" % (v, k[1:] if k.startswith("0") else k, c), "%d,%s%s" % (v, "0" * (17 - len(k)) + k, c),
                "%d,%s%s" % (v, k, c[:-1] + "g"), "%x,%s%s" % (v, k, c), "%d,0x%s%s" % (v, k, c), "," + k + c, txt.replace(",", "٫")]
        for m in rng.sample(muts, 6):
            out.append({"ev": "fidstr", "s": cp(m)})
        kc = k + c
        paths = [kc, kc + "_1", kc + "_%d" % rng.randrange(1, 10000), kc.upper() + "_7", kc + "_", kc + "_0", kc + "_007", kc + "_1_2",
                 kc + "_x", kc + "_-1", kc + "_18446744073709551615", kc + "_18446744073709551616", "_" + kc, kc[:-1] + "_1",
                 "0" + kc + "_3", kc + "_ 1", kc + "_1 ", kc + ".jpg", kc + "_99999",
                 c, c[:7], c + "_1", kc[:-1] + "g", "g" + kc, "0x" + kc, kc[:9], "0" * 25 + c, kc.replace(kc[0], "G", 1)]
        for m in rng.sample(paths, 4):
            out.append({"ev": "path", "s": cp(m)})
    return out


def rnd_idx(rng, n, offsz):
    out = []
    for _ in range(n):
        off = rnd_bytes(rng, 5)
        if offsz == 4:
            off[0] = 0
        out.append({"ev": "idx", "key": rnd_bytes(rng, 8, rng.choice([0, 0, 4])), "off": off, "size": rnd_bytes(rng, 4)})
        out.append({"ev": "idxraw", "by": rnd_bytes(rng, 12 + offsz)})
    return out


def walks(rng, sizes):
    out = []
    for n in sizes:
        ents = []
        for i in range(n):
            ents.append([i * 7 + 1 if rng.random() < 0.9 else rng.randrange(1, 1 << 31), rng.randrange(0, 1 << 28),
                         rng.choice([0, 1, -1, 2147483647, -2147483648, rng.randrange(-5000, 5000)])])
        out.append({"ev": "walk", "ents": ents})
    return out


def rnd_sb(rng, n, big):
    out = []
    for i in range(n):
        nid = rng.choice([0, 1, 2, 100, 127, 128, 1000])
        if big and i < len(big):
            nid = big[i]
        present = rng.random() < 0.8
        if big and i < len(big):
            present = True
        wide = 0.2 if nid <= 1000 else 0.0      # the whole extra must stay below 65534 bytes (SuperBlock.Bytes exits otherwise)
        ids = [rng.choice([1, 127, 128, 300, 16383, 16384, 2147483647]) if rng.random() < wide else rng.randrange(1, 128)
               for _ in range(nid)] if present else []
        out.append({"ev": "sbval", "ver": rng.choice([1, 2, 3, 3]), "p": [rng.randrange(3) for _ in range(3)],
                    "ttl": [rng.randrange(256), rng.randrange(256)] if rng.random() < 0.3 else [rng.randrange(256), rng.randrange(7)],
                    "rev": rng.choice([0, 1, 255, 256, 65535, rng.randrange(65536)]),
                    "extra": {"present": present, "data": rng.choice([0, 10, 127, 128, 1 << 20]) if present else 0,
                              "parity": rng.choice([0, 4, 255]) if present else 0, "ids": ids}})
    for _ in range(n):
        rp = rng.choice([0, 1, 2, 10, 11, 100, 110, 200, 222, 3, 30, 123, 223, 255, rng.randrange(256)])
        hdr = [rng.choice([0, 1, 2, 3, 3, 3, 4, 255]), rp, rng.randrange(256), rng.randrange(8), rng.randrange(256), rng.randrange(256)]
        tail = rng.choice([[], VALID_EXTRA_BLOB, VALID_EXTRA_BLOB + [9, 9, 9], rnd_bytes(rng, rng.randrange(0, 30))])
        es = rng.choice([0, 0, len(tail), len(tail), len(tail) + 1, max(0, len(tail) - 1), 65535, 256])
        by = hdr + [es >> 8, es & 255] + tail
        if rng.random() < 0.15:
            by = by[:rng.randrange(0, 8)]
        out.append({"ev": "sbraw", "by": by})
    return out


def write_script(path, ops, per=25):
    with open(path, "w") as f:
        for i in range(0, len(ops), per):
            f.write(json.dumps({"ev": "reset"}) + "\n")
            for op in ops[i:i + per]:
                f.write(json.dumps(op) + "\n")


def mutate(evs):
    """binding self-test: a file id text that lost its last character must be rejected by the judge"""
    for i, e in enumerate(evs):
        if e["ev"] == "fidval" and any(e["key"]):
            m = [json.loads(json.dumps(x)) for x in evs]
            m[i]["res"]["str"] = m[i]["res"]["str"][:-1]
            return m
        if e["ev"] == "idx":
            m = [json.loads(json.dumps(x)) for x in evs]
            m[i]["res"]["by"][8], m[i]["res"]["by"][11] = m[i]["res"]["by"][11], (m[i]["res"]["by"][8] + 1) % 256
            return m
    return None


def run(ctx):
    ctx.sany("Codecs", "CodecsTrace")
    level = 2 if ctx.thorough else 1
    rng = random.Random(ctx.seed)
    # 1+2. the codec definitions are model-checked (laws over every element of the enumerated domains)
    #      and the same run emits every element as an operation for the real code
    ops = []
    if not ctx.replay:
        inst = ctx.instance("MC_Codecs", "Codecs", "Codecs_mc.cfg", {"OffsetSize": 4, "Level": level})
        ops = [flat(h[0]) for h in ctx.generate(inst, workers=4, timeout=1200)]
        ops.sort(key=lambda o: json.dumps(o, sort_keys=True))   # TLC emits in worker order
        if len(ops) < 5000:
            raise ctx_infra("generator produced only %d operations" % len(ops))
        ctx.notes["tlc_enumerated_operations"] = len(ops)
        if ctx.thorough:   # every (count, unit byte) pair, not only the units the system writes
            ops += [{"ev": "ttlval", "c": c, "u": u} for c in range(256) for u in range(7, 256, 1 if c in (0, 1, 255) else 31)]
        k = 8 if ctx.thorough else 1
        ops += rnd_ttl_strings(rng, 500 * k)
        ops += rnd_fid(rng, 150 * k)
        # the same TTL and file-id texts entering through an upload request (needle.CreateNeedleFromRequest)
        tt = [o for o in ops if o["ev"] == "ttlstr"]
        pp = [o for o in ops if o["ev"] == "path"]
        ops += [{"ev": "upttl", "s": o["s"]} for o in rng.sample(tt, min(len(tt), 400 * k))]
        ops += [{"ev": "upfid", "s": o["s"] + rng.choice([[], [], cp(".jpg"), cp(".q"), cp(".")])} for o in rng.sample(pp, min(len(pp), 250 * k))]
        ops += rnd_idx(rng, 200 * k, 4)
        ops += walks(rng, [0, 1, 2, 1023, 1024, 1025, 2047, 2048, 2049, rng.randrange(3, 3000)] + ([4096, 5000] if ctx.thorough else []))
        ops += rnd_sb(rng, 60 * k, [30000, 65500] if ctx.thorough else [5000])
        ops += [{"ev": "rpstr", "s": cp(s)} for s in ["000", "222", "0012", "2222", "22222222", "", "0", "01", "003", "300", "0 0",
                                                        "00١", "０００", "-00", "+00", "1e0", "00.", "0000000000"]]
        rng.shuffle(ops)
    script = os.path.join(ctx.out, "script.ndjson")
    if ctx.replay:
        script = ctx.replay
    else:
        write_script(script, ops)
    binp = ctx.build("c08")
    trace = ctx.drive(binp, ["--script", script])
    cons = {"OffsetSize": 4, "Level": 1}
    nontriv = lambda e: len(e) >= 3
    ctx.judge("CodecsTrace", trace, "trace_base.cfg", cons, nontrivial=nontriv, mutate=mutate, chunk_events=12000)
    if ctx.thorough and not ctx.replay:
        # index entries with 5-byte offsets (build tag 5BytesOffset): same laws with OffsetSize = 5
        inst5 = ctx.instance("MC_Codecs5", "Codecs", "Codecs_mc.cfg", {"OffsetSize": 5, "Level": 1})
        ops5 = [flat(h[0]) for h in ctx.generate(inst5, workers=4, timeout=1200)]
        ops5.sort(key=lambda o: json.dumps(o, sort_keys=True))
        ops5 = [o for o in ops5 if o["ev"] == "idx"] + rnd_idx(rng, 3000, 5) + walks(rng, [0, 1, 1024, 1025, 2049])
        rng.shuffle(ops5)
        script5 = os.path.join(ctx.out, "script5.ndjson")
        write_script(script5, ops5)
        bin5 = ctx.build("c08", tags=("verif", "5BytesOffset"))
        trace5 = ctx.drive(bin5, ["--script", script5], name="trace5")
        with open(trace5) as f:
            if '"offsetSize":5' not in f.readline():
                raise ctx_infra("5BytesOffset build does not report offset size 5")
        ctx.judge("CodecsTrace", trace5, "trace_base.cfg", {"OffsetSize": 5, "Level": 1}, nontrivial=nontriv,
                  mutate=mutate, chunk_events=12000, label="o5")
    ctx.rule = ("operations = every element of the TLC-enumerated codec domains (all 256x7 TTL count/unit pairs, all TTL "
                "strings over a 10-13 character alphabet up to length 3-4, all 27 placements, all 256 placement bytes, all "
                "placement strings over {0,1,2,3,a} up to length 4, boundary file ids and a 4700-string file-id grammar, "
                "boundary index entries, super blocks) + seeded random inputs (TTL number/unit grammar, file ids with text "
                "mutations, random index entries and raw entries, index walks of 0..2049+ entries, super blocks with extra "
                "of 0..5000 (thorough 60000) ids, raw/truncated super blocks); batched 25 per execution; non-trivial = "
                "execution with >= 2 operations; distinct by hash of the recorded execution")
    ctx.exhaustive = True
    ctx.assumptions += ["needle key 0 is never handed out: FileId text of key 0 is not judged",
                        "placement strings shorter than 3 characters have no fixed reading: every outcome admitted",
                        "non-canonical but unambiguous texts (leading zeros, upper-case hex, '+', count without unit, count 0) "
                        "may be refused or read naturally, never read as anything else",
                        "the protobuf bytes of the super block extra are opaque: only their length and the decoded message are judged",
                        "LoadTTLFromUint32 has no error return: only the image of ToUint32 is judged"]


def ctx_infra(msg):
    import vf
    return vf.Infra(msg)
