"""C18 - the filer namespace stays a well-formed tree (spec/FilerNS.tla, judge spec/FilerNSTrace.tla,
driver harness/cmd/c18 against a real filer over leveldb / leveldb2 / leveldb3, gRPC only)."""
import json
import random

import filerns_common as fc

MIX = ["create", "mkdir", "update", "delete", "nodata", "rename"]
WEIGHTS = {"create": 6, "update": 2, "delete": 4, "rename": 6, "lookup": 1, "list": 1}


def nontrivial(e):
    ev = fc.evs(e)
    moved = [x for x in ev if x["ev"] in ("rename", "delete") and x.get("res") == "ok" and len(x.get("snap", [])) + 1 > 0]
    return len(ev) >= 4 and len(moved) >= 1 and any(len(x.get("snap", [])) >= 2 for x in ev)


def mutate(events):
    """corrupt an observation: an entry disappears from the snapshot taken after a successful rename"""
    for i, e in enumerate(events):
        if e["ev"] == "rename" and e.get("res") == "ok" and len(e.get("snap", [])) >= 2:
            m = [dict(x) for x in events]
            m[i]["snap"] = list(e["snap"])[:-1]
            return m
    return None


def run(ctx):
    ctx.sany("FilerNS", "FilerNSTrace")
    rng = random.Random(ctx.seed)
    chunks = [1] if ctx.thorough else []
    attrs = [1, 2]
    hists = []
    # 1. the statements at design level over every strict history, modulo VIEW (the history itself is
    #    not part of the view), and at the same time G2: one shortest history per (state, last operation)
    depth = 4 if ctx.thorough else 3
    mcg = ctx.instance("MCG2_FilerNS_C18", "FilerNS", fc.cfg_text("FilerNS_c18.cfg", "VIEW ViewMC" if ctx.thorough else "VIEW ViewS", "INVARIANT EmitW"),
                       fc.consts(MIX, chunks, attrs, depth))
    g2 = fc.mc_and_generate(ctx, mcg, timeout=1500)
    ctx.notes["g2_histories"] = len(g2)
    hists += fc.sample(rng, g2, 2000 if ctx.thorough else 300)
    if ctx.thorough:
        # every history of length 3 without a view (action properties on every transition) ...
        mc = ctx.instance("MC_FilerNS_C18", "FilerNS", fc.cfg_text("FilerNS_c18.cfg"), fc.consts(MIX, [], attrs, 3))
        ctx.model_check(mc, workers=4, timeout=1500)
        # ... G1: all histories of length 2, G3: random walks of length 10
        g1 = ctx.instance("G1_FilerNS_C18", "FilerNS", "SPECIFICATION Spec\nINVARIANT Emit\nCHECK_DEADLOCK FALSE",
                          fc.consts(MIX, [], attrs, 2))
        hists += fc.sample(rng, ctx.generate(g1, workers=4), 800)
        g3 = ctx.instance("G3_FilerNS_C18", "FilerNS", "SPECIFICATION Spec\nINVARIANT Emit\nCHECK_DEADLOCK FALSE",
                          fc.consts(MIX, [1, 2], attrs, 10))
        hists += ctx.generate(g3, simulate=200, depth=11)
    hists = [fc.observers(rng, fc.PATHS, [fc.norm_op(op, rng) for op in h], 0.15) for h in hists]
    # 2. G4: seeded random input scripts over a larger path universe, no hard links
    hists += fc.random_scripts(rng, 400 if ctx.thorough else 80, 12, WEIGHTS)
    hists += fc.merge_scripts(rng, 48 if ctx.thorough else 16)
    hists = fc.finding_scripts("C18") + hists
    fc.drive_and_judge(ctx, hists, nontrivial, mutate, ["C18"])
    ctx.rule = ("executions = one TLC witness history per (namespace state, last operation) to depth %d over 5 paths "
                "(sampled in the quick tier; thorough adds a sample of all histories of length 2 and random walks of length 10) "
                "+ seeded random input scripts of length 12 over 8 paths; every operation goes through the real "
                "filer's gRPC API and is followed by a recursive ListEntries snapshot of the whole subtree; "
                "non-trivial = >= 3 operations with a successful rename or delete and a snapshot of >= 2 entries; "
                "distinct by hash of the recorded execution" % depth)
    ctx.exhaustive = True
    ctx.assumptions += [
        "reading of the statement: an operation that answers ok has its complete effect, one that answers with an error "
        "has none; where the statement is silent (o_excl, renaming a directory onto an existing directory, "
        "operations on missing paths) every answer is admitted",
        "directory attributes are not compared; file identity is (chunk ids, attribute token carried by mtime/uid/mime)",
        "a call that does not return within the deadline (8 s) is recorded as timeout, which the specification never admits",
    ]
