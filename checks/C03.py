"""C03 - a volume survives a crash at any point without serving wrong data
(CrashRecover.tla layer A, VolumeCrash.tla layer B, judge CrashTrace.tla, driver c03)."""
import json
import os
import random

import volfam


def run(ctx):
    ctx.sany("CrashRecover", "VolumeCrash", "CrashTrace")
    kf = set(volfam.KF_ALL) | set(ctx.kf_open.keys())
    base = {"Keys": {1, 2}, "Cookies": {"c1"}, "VTtl": "", "KF": kf, "Algos": set(), "WithRestart": False,
            "WithRo": False, "KeyOrderedScanIdx": False}
    # layer B: every history up to the bound x every crash point (records kept, torn tail, index entries kept),
    # reopen with the integrity check, reads must equal the last state durable in both files
    mc = ctx.instance("MC_C03", "VolumeCrash", "VolumeCrash_mc.cfg",
                      dict(base, Datas={"a", "b"}, MetaSet={"m0", "m1"} if ctx.thorough else {"m0"},
                           MaxOps=6 if ctx.thorough else 5))
    ctx.model_check(mc, workers=8, timeout=2400)
    # histories (inputs): witnesses of the volume model that append at least 3 records, plus random ones
    g2 = ctx.instance("G2_C03", "VolumeImpl", volfam.GEN_W,
                      dict(base, Cookies={"c1", "c2"}, Datas={"a", "b"}, MetaSet={"m0", "m1"}, MaxOps=5 if ctx.thorough else 4))
    hs = [h for h in ctx.generate(g2, workers=4, timeout=1500) if len(h) >= 3]
    rng = random.Random(ctx.seed)
    rng.shuffle(hs)
    # prefer histories that end with, or contain, a delete (tombstone as last record / overwritten keys)
    hs.sort(key=lambda h: -sum(1 for o in h if o["ev"] == "delete") - (2 if h[-1]["ev"] == "delete" else 0))
    nh = 60 if ctx.thorough else 8
    hists = hs[:nh // 2] + rng.sample(hs, min(len(hs), nh // 2))
    for _ in range(nh // 2):
        h = []
        for _ in range(rng.randint(4, 7)):
            if rng.random() < 0.65:
                h.append({"ev": "write", "k": rng.choice([1, 2, 3]), "c": rng.choice(["c1", "c1", "c2"]),
                          "d": rng.choice(["a", "b", "L"]), "m": rng.choice(["m0", "m1"])})
            else:
                h.append({"ev": "delete", "k": rng.choice([1, 2, 3]), "c": "c1"})
        hists.append(h)
    script = os.path.join(ctx.out, "script.ndjson")
    if ctx.replay:
        script = ctx.replay
    else:
        with open(script, "w") as f:
            for h in hists:
                f.write(json.dumps({"ev": "reset", "stride": 1, "block": 40}) + "\n")
                for op in h:
                    f.write(json.dumps(op) + "\n")
    binp = ctx.build("c03")
    trace = ctx.drive(binp, ["--script", script], timeout=3000)

    def mutate(evs):
        for i, e in enumerate(evs):
            if e["ev"] == "read" and e.get("st") == "data":
                m = [dict(x) for x in evs]
                m[i]["d"] = "b" if e["d"] != "b" else "a"
                return m
        return None

    ctx.judge("CrashTrace", trace, "trace_base.cfg", {}, mutate=mutate, chunk_events=12000,
              nontrivial=lambda ls: sum(1 for s in ls if '"ev":"crash"' in s) >= 2)
    ncrash = 0
    with open(trace) as f:
        for line in f:
            if '"ev":"crash"' in line:
                ncrash += 1
    ctx.notes["crash_points"] = ncrash
    ctx.notes["histories"] = len(hists)
    ctx.rule = ("per history (TLC witnesses of the volume model with >= 3 operations, preferring deletes, + seeded random histories "
                "of 4-7 operations) the real data and index files are cut at EVERY byte d of the data file x every index entry "
                "count i whose records are complete within d; each crash point reopens a truncated copy with a real Store, reads "
                "every key, writes a new blob, reads it back and re-reads every key; an execution = the history + a block of 40 "
                "crash points; distinct by hash; non-trivial = at least 2 crash points")
    ctx.exhaustive = True
    ctx.assumptions += ["crash = both files keep a prefix (data file: any byte; index file: whole entries, never beyond records "
                        "complete in the data file); no reordering of writes inside a file",
                        "payloads are non-empty (the empty-payload findings of C01 are avoided here)",
                        "Store-level API (WriteVolumeNeedle/DeleteVolumeNeedle/ReadVolumeNeedle); the stored cookie and name are "
                        "compared, other metadata is not"]
