"""C36 - replication / sync / backup mirror exactly the watched subtree (ReplMap.tla)."""
import datetime
import itertools
import json
import os
import random

import vf

MT1 = 11000 * 86400 + 43200   # old entries: noon UTC of day 11000
MT2 = 11200 * 86400 + 43200   # new entries


def day(ts):
    return datetime.datetime.utcfromtimestamp(ts).strftime("%Y-%m-%d")


FILES = [("data", "x"), ("data", "d", "y"), ("data2", "x"), ("datax",), ("other", "z")]
DIRS = [("data", "d"), ("data2",)]
SRCS = [(("data",), False), (("data",), True), ((), False)]
DSTS = [(("backup",), False), (("b", "c"), True), (("data",), False)]


def cfg(mode, sink, sname, src, dst, incr):
    return {"mode": mode, "sink": sink, "sname": sname, "src": tuple(src[0]), "srcslash": src[1],
            "dst": tuple(dst[0]), "dstslash": dst[1], "incr": incr, "d1": day(MT1), "d2": day(MT2),
            "mt1": MT1, "mt2": MT2}


def cfgset(cfgs):
    return vf.Raw("{" + ", ".join(vf.tla_lit(c) for c in cfgs) + "}")


def consts(cfgs, paths, dirpaths, kinds, consistent, maxops):
    return {"Paths": set(paths), "DirPaths": set(dirpaths) if dirpaths else vf.Raw("{}"), "Cfgs": cfgset(cfgs),
            "Kinds": set(kinds), "Consistent": consistent, "MaxOps": maxops}


ALLK = ("create", "update", "delete", "rename")
NOMOVE = ("create", "update", "delete")
G1CFG = "SPECIFICATION Spec\nINVARIANT Emit\nCHECK_DEADLOCK FALSE"


def rec_cfgs(mode):
    out = []
    for src in SRCS:
        for dst in DSTS:
            for incr in (False, True):
                if mode == "replicate":
                    out.append(cfg(mode, "rec", "filer", src, dst, incr))
                out.append(cfg(mode, "rec", "rec", src, dst, incr))
    return out


def local_cfgs(srcs=SRCS[:2]):
    return [cfg(mode, "local", "local", src, DSTS[0], incr)
            for mode in ("replicate", "syncfn") for src in srcs for incr in (False, True)]


def random_histories(rng, cfgs, n, length, moves):
    """G4: long random local-sink histories (inputs only)."""
    out = []
    for _ in range(n):
        c = rng.choice(cfgs)
        ops = []
        for _ in range(length):
            isdir = rng.random() < 0.15
            ps = DIRS if isdir else FILES
            kinds = [k for k in ALLK if k != "rename" or (moves and c["mode"] != "replicate")]
            k = rng.choice(kinds)
            p = list(rng.choice(ps))
            q = list(rng.choice([x for x in ps if list(x) != p]))
            e = {"ev": "apply", "kind": k, "isdir": isdir, "origin": "local", "found": True,
                 "old": [] if k == "create" else p,
                 "new": [] if k == "delete" else (q if k == "rename" else p),
                 "oc": "" if isdir or k == "create" else "c1",
                 "nc": "" if isdir or k == "delete" else rng.choice(["c1", "c2"])}
            ops.append(e)
        out.append({"cfg": c, "ops": ops})
    return out


def reset_line(c):
    """cfg record of the spec -> reset line of the script (every key sorts after "ev":
    lib/vf.py recognises a reset by the start of the line)."""
    r = {k: v for k, v in c.items() if k not in ("dst", "dstslash", "d1", "d2")}
    r.update({"ev": "reset", "to": c["dst"], "toslash": c["dstslash"], "oday": c["d1"], "nday": c["d2"]})
    return r


def run(ctx):
    ctx.sany("ReplMap", "ReplMapTrace")
    th = ctx.thorough
    allp = FILES + DIRS

    # 1. design level: the reference applier against the judgement, the mirror invariant
    modes = (("replicate", "rec", "filer"), ("syncfn", "rec", "rec"), ("sync", "rec", "filer"), ("syncfn", "local", "local"))
    mc_cfgs = [cfg(m, s, n, src, dst, incr) for (m, s, n) in modes
               for src in (SRCS if th else SRCS[:1]) for dst in (DSTS if th else DSTS[:1]) for incr in (False, True)]
    mc = ctx.instance("MC_ReplMap", "ReplMap", "ReplMap_mc.cfg", consts(mc_cfgs, allp, DIRS, ALLK, True, 4 if th else 3))
    ctx.model_check(mc, workers=4, label="sensible histories: mirror invariant, reference applier admitted")
    mc2_cfgs = [cfg(m, s, n, src, dst, incr) for (m, s, n) in modes for src in SRCS for dst in DSTS for incr in (False, True)]
    mc2 = ctx.instance("MC2_ReplMap", "ReplMap", "ReplMap_mc.cfg", consts(mc2_cfgs, FILES, [], ALLK, False, 2 if th else 1))
    ctx.model_check(mc2, workers=4, label="every event, every configuration: reference applier admitted, safety")

    # 2. generators
    hists = []
    # G1: every single event x every configuration, recording sink
    g = ctx.instance("G1_rec", "ReplMap", G1CFG,
                     consts(rec_cfgs("replicate") + rec_cfgs("syncfn"), FILES, [], ALLK, False, 1))
    hists += ctx.generate(g, workers=2)
    # G1: all short histories into the real local sink directory
    depth = 3 if th else 2
    g = ctx.instance("G1_local", "ReplMap", G1CFG,
                     consts(local_cfgs(SRCS[:2] if th else SRCS[:1]), allp, DIRS, ALLK, False, 2))
    hists += ctx.generate(g, workers=4, timeout=1500)
    if th:
        g = ctx.instance("G1_local3", "ReplMap", G1CFG,
                         consts([c for c in local_cfgs(SRCS[:1]) if not c["incr"]], FILES, [], ALLK, False, 3))
        hists += ctx.generate(g, workers=4, timeout=1500)
    # G3: random sensible histories (files exist when updated / deleted / moved)
    g = ctx.instance("G3_local", "ReplMap", G1CFG, consts(local_cfgs(SRCS), allp, DIRS, ALLK, True, 5))
    hists += ctx.generate(g, simulate=3000 if th else 300, depth=6)
    rng = random.Random(ctx.seed)
    hists += random_histories(rng, local_cfgs(SRCS), 3000 if th else 300, 8, True)

    script = os.path.join(ctx.out, "script.ndjson")
    if ctx.replay:
        script = ctx.replay
    else:
        with open(script, "w") as f:
            for h in hists:
                f.write(json.dumps(reset_line(h["cfg"])) + "\n")
                for op in h["ops"]:
                    f.write(json.dumps(op) + "\n")
    binp = ctx.build("c36")
    trace = ctx.drive(binp, ["--script", script], env={"TZ": "UTC"})

    def mutate(evs):
        for i, e in enumerate(evs):
            if e["ev"] == "apply" and e["calls"] and evs[0]["sink"] == "rec":
                m = [dict(x) for x in evs]
                m[i]["calls"] = [dict(c) for c in e["calls"]]
                m[i]["calls"][0]["key"] = e["calls"][0]["key"] + "2"
                return m
        return None

    ctx.judge("ReplMapTrace", trace, "trace_base.cfg",
              consts([], [], [], [], False, 0),
              nontrivial=lambda e: any('"calls":[{' in x.replace(" ", "") for x in e), mutate=mutate)
    ctx.rule = ("executions = TLC-enumerated: every single event (create, update, delete, rename within / into / out of / "
                "outside; file and directory; UpdateEntry finds / does not find the old key) over 5 paths with adversarial "
                "siblings x 3 source dirs x 3 target dirs x incremental or not, through Replicator.Replicate and "
                "genProcessFunction into a recording sink; every history of length 2 into the real "
                "LocalSink directory (thorough: length 3), plus TLC-simulated sensible histories of length 5 and seeded random histories of "
                "length 8; non-trivial = at least one sink call; distinct by hash of the recorded execution")
    ctx.exhaustive = True
    ctx.assumptions += [
        "events are built the way filer.NotifyUpdateEvent / logMetaEvent publish them (key and Directory from the old entry, "
        "else the new one; NewParentPath from the new entry); entries have attributes, inline content and no chunks",
        "Replicator.Replicate is not given move events: the notification queue of this commit publishes a rename as create + delete",
        "the driver runs with TZ=UTC; entry mtimes are at noon so the day of an incremental key does not depend on the zone",
    ]
