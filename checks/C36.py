"""C36 - replication / sync / backup mirror exactly the watched subtree (ReplMap.tla)."""
import datetime
import itertools
import json
import os
import random

import vf

MT1 = 11000 * 86400 + 43200   # old entries: noon UTC of day 11000
MT2 = 11200 * 86400 + 43200   # new entries


def day(ts):
    return datetime.datetime.utcfromtimestamp(ts).strftime("%Y-%m-%d")


FILES = [("data", "x"), ("data", "d", "y"), ("data2", "x"), ("datax",), ("other", "z")]
DIRS = [("data", "d"), ("data2",)]
SRCS = [(("data",), False), (("data",), True), ((), False)]
DSTS = [(("backup",), False), (("b", "c"), True), (("data",), False)]


def cfg(mode, sink, sname, src, dst, incr):
    return {"mode": mode, "sink": sink, "sname": sname, "src": tuple(src[0]), "srcslash": src[1],
            "dst": tuple(dst[0]), "dstslash": dst[1], "incr": incr, "d1": day(MT1), "d2": day(MT2),
            "mt1": MT1, "mt2": MT2}


def cfgset(cfgs):
    return vf.Raw("{" + ", ".join(vf.tla_lit(c) for c in cfgs) + "}")


def consts(cfgs, paths, dirpaths, kinds, consistent, maxops):
    return {"Paths": set(paths), "DirPaths": set(dirpaths) if dirpaths else vf.Raw("{}"), "Cfgs": cfgset(cfgs),
            "Kinds": set(kinds), "Consistent": consistent, "MaxOps": maxops}


ALLK = ("create", "update", "delete", "rename")
NOMOVE = ("create", "update", "delete")
G1CFG = "SPECIFICATION Spec\nINVARIANT Emit\nCHECK_DEADLOCK FALSE"


def rec_cfgs(mode):
    out = []
    for src in SRCS:
        for dst in DSTS:
            for incr in (False, True):
                if mode == "replicate":
                    out.append(cfg(mode, "rec", "filer", src, dst, incr))
                out.append(cfg(mode, "rec", "rec", src, dst, incr))
    return out


def local_cfgs(srcs=SRCS[:2]):
    return [cfg(mode, "local", "local", src, DSTS[0], incr)
            for mode in ("replicate", "syncfn") for src in srcs for incr in (False, True)]


def inside(c, p):
    return len(p) > len(c["src"]) and tuple(p[:len(c["src"])]) == tuple(c["src"])


def random_histories(rng, cfgs, n, length):
    """G4: long random local-sink histories (inputs only). Mostly sensible: files are created
    before they are updated / deleted / moved, so that the sink holds the old key."""
    out = []
    for _ in range(n):
        c = rng.choice(cfgs)
        ops = []
        have = set()
        for _ in range(length):
            isdir = rng.random() < 0.12
            ps = DIRS if isdir else FILES
            kinds = [k for k in ALLK if k != "rename" or c["mode"] != "replicate"]
            k = rng.choice(kinds)
            p = rng.choice(ps)
            if not isdir and rng.random() < 0.8:
                if k == "create":
                    free = [x for x in FILES if x not in have]
                    p = rng.choice(free) if free else p
                elif have:
                    p = rng.choice(sorted(have))
                else:
                    k = "create"
            q = rng.choice([x for x in ps if x != p])
            if not isdir:
                if k == "delete":
                    have.discard(p)
                elif k == "rename":
                    have.discard(p)
                    have.add(q)
                else:
                    have.add(p)
            e = {"ev": "apply", "kind": k, "isdir": isdir, "origin": "local", "found": True,
                 "old": [] if k == "create" else list(p),
                 "new": [] if k == "delete" else (list(q) if k == "rename" else list(p)),
                 "oc": "" if isdir or k == "create" else "c1",
                 "nc": "" if isdir or k == "delete" else rng.choice(["c1", "c2"])}
            ops.append(e)
        out.append({"cfg": c, "ops": ops})
    return out


def reset_line(c):
    """cfg record of the spec -> reset line of the script (every key sorts after "ev":
    lib/vf.py recognises a reset by the start of the line)."""
    r = {k: v for k, v in c.items() if k not in ("dst", "dstslash", "d1", "d2")}
    r.update({"ev": "reset", "to": c["dst"], "toslash": c["dstslash"], "oday": c["d1"], "nday": c["d2"]})
    return r


MODES = (("replicate", "rec", "filer"), ("syncfn", "rec", "rec"), ("sync", "rec", "filer"), ("syncfn", "local", "local"))


def model_check(ctx, th, allp):
    """design level: sensible histories of the modelled source tree, replicated by the reference
    applier into an abstract sink: mirror invariant, reference applier admitted by the judgement"""
    quick_cfgs = [cfg(m, s, n, SRCS[0], DSTS[0], False) for (m, s, n) in MODES] + [cfg("syncfn", "local", "local", SRCS[1], DSTS[1], True)]
    if th:
        wide = [cfg(m, s, n, src, dst, incr) for (m, s, n) in MODES for src in SRCS[::2] for dst in DSTS[::2]
                for incr in (False, True)]
        mc = ctx.instance("MC_ReplMap_wide", "ReplMap", "ReplMap_mc.cfg", consts(wide, allp, DIRS, ALLK, True, 3))
        ctx.model_check(mc, workers=4, timeout=1500, label="sensible histories of length 3, 32 configurations: mirror invariant, reference applier admitted")
    mc = ctx.instance("MC_ReplMap", "ReplMap", "ReplMap_mc.cfg", consts(quick_cfgs, allp, DIRS, ALLK, True, 4 if th else 3))
    ctx.model_check(mc, workers=4, timeout=1500, label="sensible histories: mirror invariant, reference applier admitted")


def pack(hists, size=24):
    """single-event histories into a stateless sink (recording sink, stand-in target filer) are
    packed into executions of <= size events per configuration"""
    out, groups = [], {}
    for h in hists:
        c = h["cfg"]
        if c["sink"] == "local":
            out.append(h)
            continue
        groups.setdefault(json.dumps(c, sort_keys=True), []).extend(h["ops"])
    for k in sorted(groups):
        ops = groups[k]
        for i in range(0, len(ops), size):
            out.append({"cfg": json.loads(k), "ops": ops[i:i + size]})
    return out


def generate(ctx, th, allp):
    """G1 (one TLC run, which also checks the design invariants on every generated step):
    - every single event x every configuration into the recording sink (Replicate, sync fn);
    - every single event the filer publishes x origin (source / target / third cluster) through one
      direction of filer.sync end to end (real FilerSink between two stand-in filers);
    - every history of 2 events into the real local sink directory."""
    sync_cfgs = [cfg("sync", "rec", "filer", src, dst, False) for src in SRCS for dst in (DSTS[0], DSTS[2])]
    lc = local_cfgs(SRCS[:2]) if th else [c for c in local_cfgs(SRCS[:1]) if c["mode"] == "replicate" or not c["incr"]]
    g = ctx.instance("G1_ReplMap", "ReplMap", open(os.path.join(vf.SPEC, "ReplMap_mc.cfg")).read().replace("VIEW MCView\n", "") + "INVARIANT Emit\n",
                     consts(rec_cfgs("replicate") + rec_cfgs("syncfn") + sync_cfgs + lc, allp, DIRS, ALLK, False, 2))
    hists = pack(ctx.generate(g, workers=4, timeout=1500))
    if th:
        # every history of 3 file events over the three paths around the boundary
        g = ctx.instance("G1_local3", "ReplMap", G1CFG,
                         consts([c for c in local_cfgs(SRCS[:1]) if not c["incr"]], FILES[:3] + DIRS[:1], DIRS[:1], ALLK, False, 3))
        hists += ctx.generate(g, workers=4, timeout=1500)
        # G3: TLC-simulated sensible histories (files exist when updated / deleted / moved)
        g = ctx.instance("G3_local", "ReplMap", G1CFG, consts(local_cfgs(SRCS), allp, DIRS, ALLK, True, 5))
        hists += ctx.generate(g, simulate=1000, depth=6, limit=1500)
    rng = random.Random(ctx.seed)
    hists += random_histories(rng, local_cfgs(SRCS), 1500 if th else 300, 8)
    return hists


def run(ctx):
    ctx.sany("ReplMap", "ReplMapTrace")
    th = ctx.thorough
    allp = FILES + DIRS
    hists = []
    if not ctx.replay:      # a replay only re-executes and re-judges the saved script
        model_check(ctx, th, allp)
        hists = generate(ctx, th, allp)

    script = os.path.join(ctx.out, "script.ndjson")
    if ctx.replay:
        script = ctx.replay
    else:
        with open(script, "w") as f:
            for h in hists:
                f.write(json.dumps(reset_line(h["cfg"])) + "\n")
                for op in h["ops"]:
                    f.write(json.dumps(op) + "\n")
    binp = ctx.build("c36")
    env = {"TZ": "UTC"}
    if os.path.isdir("/dev/shm"):
        env["TMPDIR"] = "/dev/shm"      # the local sink directories
    trace = ctx.drive(binp, ["--script", script], env=env)

    def mutate(evs):
        for i, e in enumerate(evs):
            if e["ev"] == "apply" and e["calls"] and evs[0]["sink"] == "rec" and not evs[0]["incr"]:
                m = [dict(x) for x in evs]
                m[i]["calls"] = [dict(c) for c in e["calls"]]
                m[i]["calls"][0]["key"] = e["calls"][0]["key"] + "2"
                return m
        return None

    ctx.judge("ReplMapTrace", trace, "trace_base.cfg",
              consts([], [], [], [], False, 0),
              nontrivial=lambda e: any('"calls":[{' in x.replace(" ", "") for x in e), mutate=mutate,
              chunk_events=2500)
    ctx.rule = ("executions = TLC-enumerated: every single event (create, update, delete, rename within / into / out of / "
                "outside; file and directory; UpdateEntry finds / does not find the old key) over 5 paths with adversarial "
                "siblings x 3 source dirs x 3 target dirs x incremental or not, through Replicator.Replicate and "
                "genProcessFunction into a recording sink; every history of length 2 into the real "
                "LocalSink directory (thorough: length 3), plus TLC-simulated sensible histories of length 5 and seeded random histories of "
                "length 8; non-trivial = at least one sink call; distinct by hash of the recorded execution")
    ctx.exhaustive = True
    ctx.assumptions += [
        "events are built the way filer.NotifyUpdateEvent / logMetaEvent publish them (key and Directory from the old entry, "
        "else the new one; NewParentPath from the new entry); entries have attributes, inline content and no chunks",
        "Replicator.Replicate is not given move events: the notification queue of this commit publishes a rename as create + delete",
        "the driver runs with TZ=UTC; entry mtimes are at noon so the day of an incremental key does not depend on the zone",
    ]
