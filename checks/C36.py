"""C36 - replication / sync / backup mirror exactly the watched subtree (ReplMap.tla)."""
import datetime
import itertools
import json
import os
import random
import shutil
import tempfile

import vf

MT1 = 11000 * 86400 + 43200   # old entries: noon UTC of day 11000
MT2 = 11200 * 86400 + 43200   # new entries


def day(ts):
    return datetime.datetime.utcfromtimestamp(ts).strftime("%Y-%m-%d")


FILES = [("data", "x"), ("data", "d", "y"), ("data2", "x"), ("datax",), ("other", "z")]
DIRS = [("data", "d"), ("data2",)]
SRCS = [(("data",), False), (("data",), True), ((), False)]
DSTS = [(("backup",), False), (("b", "c"), True), (("data",), False)]


def cfg(mode, sink, sname, src, dst, incr):
    return {"mode": mode, "sink": sink, "sname": sname, "src": tuple(src[0]), "srcslash": src[1],
            "dst": tuple(dst[0]), "dstslash": dst[1], "incr": incr, "d1": day(MT1), "d2": day(MT2),
            "mt1": MT1, "mt2": MT2}


def cfgset(cfgs):
    return vf.Raw("{" + ", ".join(vf.tla_lit(c) for c in cfgs) + "}")


def consts(cfgs, paths, dirpaths, kinds, consistent, maxops):
    return {"Paths": set(paths), "DirPaths": set(dirpaths) if dirpaths else vf.Raw("{}"), "Cfgs": cfgset(cfgs),
            "Kinds": set(kinds), "Consistent": consistent, "MaxOps": maxops}


ALLK = ("create", "update", "delete", "rename")
NOMOVE = ("create", "update", "delete")
G1CFG = "SPECIFICATION Spec\nINVARIANT Emit\nCHECK_DEADLOCK FALSE"


def rec_cfgs(mode):
    out = []
    for src in SRCS:
        for dst in DSTS:
            for incr in (False, True):
                if mode == "replicate":
                    out.append(cfg(mode, "rec", "filer", src, dst, incr))
                out.append(cfg(mode, "rec", "rec", src, dst, incr))
    return out


def local_cfgs(srcs=SRCS[:2]):
    return [cfg(mode, "local", "local", src, DSTS[0], incr)
            for mode in ("replicate", "syncfn") for src in srcs for incr in (False, True)]


def inside(c, p):
    return len(p) > len(c["src"]) and tuple(p[:len(c["src"])]) == tuple(c["src"])


def random_histories(rng, cfgs, n, length):
    """G4: long random local-sink histories (inputs only). Mostly sensible: files are created
    before they are updated / deleted / moved, so that the sink holds the old key."""
    out = []
    for _ in range(n):
        c = rng.choice(cfgs)
        ops = []
        have = set()
        for _ in range(length):
            isdir = rng.random() < 0.12
            ps = DIRS if isdir else FILES
            kinds = [k for k in ALLK if k != "rename" or c["mode"] != "replicate"]
            k = rng.choice(kinds)
            p = rng.choice(ps)
            if not isdir and rng.random() < 0.8:
                if k == "create":
                    free = [x for x in FILES if x not in have]
                    p = rng.choice(free) if free else p
                elif have:
                    p = rng.choice(sorted(have))
                else:
                    k = "create"
            q = rng.choice([x for x in ps if x != p])
            if not isdir:
                if k == "delete":
                    have.discard(p)
                elif k == "rename":
                    have.discard(p)
                    have.add(q)
                else:
                    have.add(p)
            e = {"ev": "apply", "kind": k, "isdir": isdir, "origin": "local", "found": True,
                 "old": [] if k == "create" else list(p),
                 "new": [] if k == "delete" else (list(q) if k == "rename" else list(p)),
                 "oc": "" if isdir or k == "create" else "c1",
                 "nc": "" if isdir or k == "delete" else rng.choice(["c1", "c2"])}
            ops.append(e)
        out.append({"cfg": c, "ops": ops})
    return out


# ---------------------------------------------------------------- chunked entries (what arrives at the sink)
CH_OFFS, CH_LENS, CH_SIZES = (0, 1, 3, 5), (2, 3, 4), (0, 6, 11)


def layouts(ctx, th):
    """TLC enumerates the chunk layouts (ReplBytesMC.tla: every list of <= n chunks over a small grid
    of offsets and lengths in every time order x size attributes; overlaps, holes, tails) and checks
    the content model on each (per-position reading = writes replayed in time order)."""
    base = open(os.path.join(vf.SPEC, "ReplBytes_mc.cfg")).read() + "INVARIANT Emit\n"
    g = ctx.instance("G1_ReplBytes", "ReplBytesMC", base,
                     {"Offs": set(CH_OFFS), "Lens": set(CH_LENS), "MaxChunks": 2, "Sizes": set(CH_SIZES)})
    lays = ctx.generate(g, workers=4, timeout=1500)
    if th:
        g = ctx.instance("G1_ReplBytes3", "ReplBytesMC", base,
                         {"Offs": {0, 2, 5}, "Lens": set(CH_LENS), "MaxChunks": 3, "Sizes": {0}})
        lays += [l for l in ctx.generate(g, workers=4, timeout=1500) if len(l["lay"]) == 3]
    return lays


def cev(kind, old, new, och, osz, nch, nsz):
    return {"ev": "capply", "kind": kind, "isdir": False, "origin": "local", "found": True,
            "old": list(old), "new": list(new), "och": och, "osz": osz, "nch": nch, "nsz": nsz}


def layout_histories(rng, lays, cfgs, per=12):
    """every layout once as the new entry of a create / update of a watched file: the file is created
    with one layout and then updated to the next ones (chunk list grows, shrinks, moves)"""
    lays = list(lays)
    rng.shuffle(lays)
    out = []
    for i in range(0, len(lays), per):
        c = cfgs[(i // per) % len(cfgs)]
        p = [x for x in FILES if inside(c, x)][(i // per) % 2]
        ops, prev = [], None
        for l in lays[i:i + per]:
            if prev is None:
                ops.append(cev("create", (), p, [], 0, l["lay"], l["sz"]))
            else:
                ops.append(cev("update", p, p, prev["lay"], prev["sz"], l["lay"], l["sz"]))
            prev = l
        out.append({"cfg": c, "ops": ops})
    return out


def rand_layout(rng, flags=True, maxn=4, maxlen=25):
    n = rng.choice([0, 1, 1, 2, 2, 3, 3, maxn])
    ts = list(range(1, n + 1))
    rng.shuffle(ts)
    gz = flags and rng.random() < 0.3
    ci = flags and rng.random() < 0.25
    lay, pos = [], 0
    for j in range(n):
        ln = rng.choice([1, 2, 3, 5, 8, 12, maxlen])
        mode = rng.random()
        if mode < 0.45:            # overlaps what is there
            off = max(0, pos - rng.randint(1, 6))
        elif mode < 0.8:           # appended
            off = pos
        else:                      # leaves a hole
            off = pos + rng.randint(1, 4)
        pos = max(pos, off + ln)
        lay.append({"off": off, "len": ln, "k": j + 1, "ts": ts[j], "gz": gz if rng.random() < 0.8 else not gz,
                    "ci": ci})
    ext = pos
    sz = rng.choice([ext, ext, ext, 0, max(0, ext - 2), ext + 3])
    return lay, sz


def random_chunk_histories(rng, cfgs, n, length):
    """G4: random local-sink histories over chunked files (and now and then a directory): creates,
    updates whose chunk list grows / shrinks, truncates (same chunks, smaller size attribute),
    renames, deletes; chunks stored plain / compressed / encrypted"""
    out = []
    for _ in range(n):
        c = rng.choice(cfgs)
        ops, have = [], {}
        for _ in range(length):
            kinds = [k for k in ALLK if k != "rename" or c["mode"] != "replicate"]
            k = rng.choice(kinds + ["update", "create"])
            if rng.random() < 0.1:
                p = rng.choice(DIRS)
                ops.append({"ev": "apply", "kind": "create", "isdir": True, "origin": "local", "found": True,
                            "old": [], "new": list(p), "oc": "", "nc": ""})
                continue
            if k == "create" or not have:
                free = [x for x in FILES if x not in have] or FILES
                p = rng.choice(free)
                lay, sz = rand_layout(rng)
                ops.append(cev("create", (), p, [], 0, lay, sz))
                have[p] = (lay, sz)
                continue
            p = rng.choice(sorted(have))
            olay, osz = have[p]
            if k == "delete":
                ops.append(cev("delete", p, (), olay, osz, [], 0))
                del have[p]
            elif k == "rename":
                q = rng.choice([x for x in FILES if x != p])
                ops.append(cev("rename", p, q, olay, osz, olay, osz))
                del have[p]
                have[q] = (olay, osz)
            else:
                r = rng.random()
                if r < 0.3 and olay:      # truncate: same chunks, smaller size attribute
                    lay, sz = olay, max(0, osz - rng.randint(1, 4))
                elif r < 0.6 and olay:    # append / overwrite a piece: one more chunk
                    ext = max(x["off"] + x["len"] for x in olay)
                    off = rng.choice([ext, max(0, ext - 3), ext + 2, 0])
                    ln = rng.choice([1, 3, 7])
                    lay = olay + [{"off": off, "len": ln, "k": len(olay) + 1, "ts": max(x["ts"] for x in olay) + 1,
                                   "gz": olay[0]["gz"], "ci": olay[0]["ci"]}]
                    sz = max(ext, off + ln)
                elif r < 0.75 and len(olay) > 1:   # shrinks
                    lay, sz = olay[:-1], 0
                else:
                    lay, sz = rand_layout(rng)
                ops.append(cev("update", p, p, olay, osz, lay, sz))
                have[p] = (lay, sz)
        out.append({"cfg": c, "ops": ops})
    return out


# ---------------------------------------------------------------- the real filer.backup round
BROOT = ("c36", "w")
BSIBS = (("c36", "w2"), ("c36", "wx"))
BCFGS = [cfg("backup", "local", "local", (BROOT, False), DSTS[0], False),
         cfg("backup", "local", "local", (BROOT, True), DSTS[1], True)]
BNAMES = [("a",), ("b",), ("d", "y"), ("d", "z")]


def backup_histories(rng, c, n, length, first):
    """G4: mutations of the source through the real filer (entries with chunk lists, inline content,
    bodies the filer chunks itself, deletes of files and folders, renames within / into / out of the
    watched directory) while the real backup round runs; every execution in its own sub-directories"""
    out = []
    for x in range(n):
        ns = "x%d" % (first + x)
        roots = [list(r) + [ns] for r in (BROOT,) + BSIBS]
        paths = [tuple(r) + q for r in roots for q in BNAMES]
        watched = [p for p in paths if p[:2] == BROOT]
        ops, have = [], set()

        def bop(do, a, b=(), **kw):
            e = {"ev": "bop", "do": do, "a": list(a), "b": list(b), "ch": [], "sz": 0, "c": "", "mt": 2,
                 "via": "create", "k": 1, "len": 0}
            e.update(kw)
            ops.append(e)

        for _ in range(length):
            r = rng.random()
            pool = watched if rng.random() < 0.75 else paths
            if r < 0.45 or not have:
                p = rng.choice(pool)
                how = rng.random()
                if how < 0.65:
                    lay, sz = rand_layout(rng, flags=True, maxn=3)
                    if not lay:
                        sz = 0
                    bop("put", p, ch=lay, sz=sz, mt=rng.choice([1, 2]),
                        via="update" if p in have and rng.random() < 0.5 else "create")
                elif how < 0.8:
                    bop("put", p, c=rng.choice(["hello", "inline", "c"]), mt=rng.choice([1, 2]))
                elif not c["incr"]:
                    bop("post", p, k=rng.randint(1, 4), len=rng.choice([1, 7, 30, 300]))
                else:
                    continue
                have.add(p)
            elif r < 0.65:
                p = rng.choice(sorted(have))
                free = [q for q in pool if q not in have]
                if not free:
                    continue
                q = rng.choice(free)
                bop("mv", p, q)
                have.discard(p)
                have.add(q)
            elif r < 0.8:
                p = rng.choice(sorted(have))
                bop("rm", p)
                have.discard(p)
            elif r < 0.9:
                d = rng.choice(roots) + ["d"]
                if rng.random() < 0.5:
                    bop("rm", d)
                    have = {p for p in have if list(p[:len(d)]) != d}
                else:
                    e = d[:-1] + ["e"]
                    if any(list(p[:len(e)]) == e for p in have) or not any(list(p[:len(d)]) == d for p in have):
                        continue
                    bop("mv", d, e)
                    have = {tuple(e) + p[len(d):] if list(p[:len(d)]) == d else p for p in have}
            else:
                bop("mkdir", rng.choice(roots) + [rng.choice(["d", "m"])])
        if x == 0:
            # the first execution of the process: what is there before the round starts must be picked up
            for e in ops[:2]:
                e["ev"] = "pre"
        r = reset_line(c)
        r.update({"roots": roots, "ns": ns})
        out.append({"reset": r, "ops": ops})
    return out


def reset_line(c):
    """cfg record of the spec -> reset line of the script (every key sorts after "ev":
    lib/vf.py recognises a reset by the start of the line)."""
    r = {k: v for k, v in c.items() if k not in ("dst", "dstslash", "d1", "d2")}
    r.update({"ev": "reset", "to": c["dst"], "toslash": c["dstslash"], "oday": c["d1"], "nday": c["d2"]})
    return r


MODES = (("replicate", "rec", "filer"), ("syncfn", "rec", "rec"), ("sync", "rec", "filer"), ("syncfn", "local", "local"))


def model_check(ctx, th, allp):
    """design level: sensible histories of the modelled source tree, replicated by the reference
    applier into an abstract sink: mirror invariant, reference applier admitted by the judgement"""
    quick_cfgs = [cfg(m, s, n, SRCS[0], DSTS[0], False) for (m, s, n) in MODES] + [cfg("syncfn", "local", "local", SRCS[1], DSTS[1], True)]
    if th:
        wide = [cfg(m, s, n, src, dst, incr) for (m, s, n) in MODES for src in SRCS[::2] for dst in DSTS[::2]
                for incr in (False, True)]
        mc = ctx.instance("MC_ReplMap_wide", "ReplMap", "ReplMap_mc.cfg", consts(wide, allp, DIRS, ALLK, True, 3))
        ctx.model_check(mc, workers=4, timeout=1500, label="sensible histories of length 3, 32 configurations: mirror invariant, reference applier admitted")
    mc = ctx.instance("MC_ReplMap", "ReplMap", "ReplMap_mc.cfg", consts(quick_cfgs, allp, DIRS, ALLK, True, 4 if th else 3))
    ctx.model_check(mc, workers=4, timeout=1500, label="sensible histories: mirror invariant, reference applier admitted")


def pack(hists, size=24):
    """single-event histories into a stateless sink (recording sink, stand-in target filer) are
    packed into executions of <= size events per configuration"""
    out, groups = [], {}
    for h in hists:
        c = h["cfg"]
        if c["sink"] == "local":
            out.append(h)
            continue
        groups.setdefault(json.dumps(c, sort_keys=True), []).extend(h["ops"])
    for k in sorted(groups):
        ops = groups[k]
        for i in range(0, len(ops), size):
            out.append({"cfg": json.loads(k), "ops": ops[i:i + size]})
    return out


def parts():
    """VERIF_C36_PARTS=old,chunk,backup (default: all): a development shortcut that restricts the run to
    the event-mapping executions (old), the chunked entries (chunk) or the real backup round (backup);
    anything but the default also skips the model checking of ReplMap.tla"""
    return set(os.environ.get("VERIF_C36_PARTS", "old,chunk,backup").split(","))


def generate(ctx, th, allp):
    hists = generate_old(ctx, th, allp) if "old" in parts() else []
    if "chunk" in parts():
        # chunked entries: every enumerated layout once, then seeded random histories
        rng = random.Random(ctx.seed + 3)
        hists += layout_histories(rng, layouts(ctx, th), local_cfgs(SRCS[:2]))
        hists += random_chunk_histories(rng, local_cfgs(SRCS), 1000 if th else 120, 8)
    return hists


def generate_old(ctx, th, allp):
    """G1 (one TLC run, which also checks the design invariants on every generated step):
    - every single event x every configuration into the recording sink (Replicate, sync fn);
    - every single event the filer publishes x origin (source / target / third cluster) through one
      direction of filer.sync end to end (real FilerSink between two stand-in filers);
    - every history of 2 events into the real local sink directory."""
    sync_cfgs = [cfg("sync", "rec", "filer", src, dst, False) for src in SRCS for dst in (DSTS[0], DSTS[2])]
    lc = local_cfgs(SRCS[:2]) if th else [c for c in local_cfgs(SRCS[:1]) if c["mode"] == "replicate" or not c["incr"]]
    g = ctx.instance("G1_ReplMap", "ReplMap", open(os.path.join(vf.SPEC, "ReplMap_mc.cfg")).read().replace("VIEW MCView\n", "") + "INVARIANT Emit\n",
                     consts(rec_cfgs("replicate") + rec_cfgs("syncfn") + sync_cfgs + lc, allp, DIRS, ALLK, False, 2))
    hists = pack(ctx.generate(g, workers=4, timeout=1500))
    if th:
        # every history of 3 file events over the three paths around the boundary
        g = ctx.instance("G1_local3", "ReplMap", G1CFG,
                         consts([c for c in local_cfgs(SRCS[:1]) if not c["incr"]], FILES[:3] + DIRS[:1], DIRS[:1], ALLK, False, 3))
        hists += ctx.generate(g, workers=4, timeout=1500)
        # G3: TLC-simulated sensible histories (files exist when updated / deleted / moved)
        g = ctx.instance("G3_local", "ReplMap", G1CFG, consts(local_cfgs(SRCS), allp, DIRS, ALLK, True, 5))
        hists += ctx.generate(g, simulate=1000, depth=6, limit=1500)
    rng = random.Random(ctx.seed)
    hists += random_histories(rng, local_cfgs(SRCS), 1500 if th else 300, 8)
    return hists


def run(ctx):
    ctx.sany("ReplMap", "ReplBytes", "ReplBytesMC", "ReplMapTrace")
    th = ctx.thorough
    allp = FILES + DIRS
    hists = []
    if not ctx.replay:      # a replay only re-executes and re-judges the saved script
        if parts() >= {"old", "chunk", "backup"}:
            model_check(ctx, th, allp)
        hists = generate(ctx, th, allp)

    script = os.path.join(ctx.out, "script.ndjson")
    if ctx.replay:
        script = ctx.replay
    else:
        with open(script, "w") as f:
            for h in hists:
                f.write(json.dumps(reset_line(h["cfg"])) + "\n")
                for op in h["ops"]:
                    f.write(json.dumps(op) + "\n")
    binp = ctx.build("c36")
    env = {"TZ": "UTC"}
    tmpd = None
    if os.path.isdir("/dev/shm"):
        tmpd = tempfile.mkdtemp(prefix="c36.", dir="/dev/shm")
        env["TMPDIR"] = tmpd            # the local sink directories, the mini-cluster
    try:
        if hists or ctx.replay:
            trace = ctx.drive(binp, ["--script", script], env=env)
        else:
            trace = os.path.join(ctx.out, "trace.ndjson")
            open(trace, "w").close()
        # the real filer.backup round: one driver process per backup configuration
        if not ctx.replay and "backup" in parts():
            rng = random.Random(ctx.seed + 7)
            first = 1
            for i, c in enumerate(BCFGS):
                n = (120 if th else 24) if not c["incr"] else (50 if th else 10)
                bh = backup_histories(rng, c, n, 7 if th else 6, first)
                first += n
                bs = os.path.join(ctx.out, "script_b%d.ndjson" % i)
                with open(bs, "w") as f:
                    for h in bh:
                        f.write(json.dumps(h["reset"]) + "\n")
                        for op in h["ops"]:
                            f.write(json.dumps(op) + "\n")
                bt = ctx.drive(binp, ["--script", bs], env=env, name="trace_b%d" % i)
                with open(trace, "a") as f:
                    f.write(open(bt).read())
    finally:
        if tmpd:
            shutil.rmtree(tmpd, ignore_errors=True)

    def mutate(evs):
        for i, e in enumerate(evs):
            if e["ev"] == "apply" and e["calls"] and evs[0]["sink"] == "rec" and not evs[0]["incr"]:
                m = [dict(x) for x in evs]
                m[i]["calls"] = [dict(c) for c in e["calls"]]
                m[i]["calls"][0]["key"] = e["calls"][0]["key"] + "2"
                return m
        return None

    ctx.judge("ReplMapTrace", trace, "trace_base.cfg",
              consts([], [], [], [], False, 0),
              nontrivial=lambda e: any('"calls":[{' in x.replace(" ", "") or '"ev":"bop"' in x.replace(" ", "") for x in e),
              mutate=mutate,
              chunk_events=2500)
    ctx.rule = ("executions = TLC-enumerated: every single event (create, update, delete, rename within / into / out of / "
                "outside; file and directory; UpdateEntry finds / does not find the old key) over 5 paths with adversarial "
                "siblings x 3 source dirs x 3 target dirs x incremental or not, through Replicator.Replicate and "
                "genProcessFunction into a recording sink; every history of length 2 into the real "
                "LocalSink directory (thorough: length 3), plus TLC-simulated sensible histories of length 5 and seeded random histories of "
                "length 8; non-trivial = at least one sink call; distinct by hash of the recorded execution")
    ctx.exhaustive = True
    ctx.assumptions += [
        "events are built the way filer.NotifyUpdateEvent / logMetaEvent publish them (key and Directory from the old entry, "
        "else the new one; NewParentPath from the new entry); entries have attributes, inline content and no chunks",
        "Replicator.Replicate is not given move events: the notification queue of this commit publishes a rename as create + delete",
        "the driver runs with TZ=UTC; entry mtimes are at noon so the day of an incremental key does not depend on the zone",
    ]
