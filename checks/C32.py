"""C32 - volume server GET with a Range header (HttpRange.tla): 206 with exactly the requested
bytes, 416 when nothing is satisfiable, or 200 with the complete content; gzip only if accepted."""
import gzip
import json
import os
import random

import vf

MAXLEN = 8
OTHER_AF = ["list", "star", "identity", "q0"]
PER_EXEC = 25


def nums(h):
    return [x for sp in h["specs"] for x in ((sp["a"], sp["b"]) if sp["k"] == "ab" else (sp["a"],))]


def sp(k, a, b=0):
    return {"k": k, "a": a, "b": b}


def rand_header(rng, hi, nmax=5):
    n = rng.randint(2, nmax)
    specs = []
    for _ in range(n):
        k = rng.choice(["ab", "ab", "ab", "a-", "-n"])
        a = rng.randint(0, hi)
        if k == "ab":
            b = rng.randint(a, hi) if rng.random() < 0.9 else rng.randint(0, hi)
            specs.append(sp("ab", a, b))
        else:
            specs.append(sp(k, a))
    return {"mal": "", "specs": specs, "ows": rng.random() < 0.3}


def big_requests(rng, L):
    pts = sorted({0, 1, 2, 9, 10, 22, 23, 28, 29, 30, 62, 63, 64, L // 2, L - 2, L - 1, L, L + 1, 2 * L})
    hs = []
    for a in pts:
        hs.append({"mal": "", "specs": [sp("a-", a)], "ows": False})
        hs.append({"mal": "", "specs": [sp("-n", a)], "ows": False})
    for _ in range(40):
        a = rng.choice(pts)
        b = rng.choice([p for p in pts if p >= a])
        hs.append({"mal": "", "specs": [sp("ab", a, b)], "ows": False})
    for _ in range(30):
        specs = []
        for _ in range(rng.randint(2, 3)):
            a = rng.choice(pts)
            specs.append(sp("ab", a, min(a + rng.randint(0, 40), 2 * L)))
        hs.append({"mal": "", "specs": specs, "ows": False})
    for m in ("absent", "empty", "alpha", "nounit"):
        hs.append({"mal": m, "specs": [], "ows": False})
    return [(h, af) for h in hs for af in ("none", "gzip", rng.choice(OTHER_AF))]


def run(ctx):
    ctx.sany("HttpRange", "HttpRangeTrace")
    rng = random.Random(ctx.seed)
    # 1. the definition itself: sanity properties over every content length / request / near-miss answer
    mc = ctx.instance("MC_HttpRange", "HttpRange", "HttpRange_mc.cfg",
                      {"MaxLen": 3 if ctx.thorough else 2, "Grid": [4, 3, 1] if ctx.thorough else [3, 1, -1],
                       "GenAcc": {"none", "gzip", "q0"}, "MaxOps": 1})
    ctx.model_check(mc, workers=4)
    # 2. TLC enumerates the requests: every single range over 0..MaxLen+2 (+ malformed classes),
    #    every pair over a smaller grid, every triple over a tiny grid
    gen_cfg = "SPECIFICATION GenSpec\nINVARIANT Emit\nCHECK_DEADLOCK FALSE"

    inst = ctx.instance("G1_HttpRange", "HttpRange", gen_cfg,
                        {"MaxLen": 0, "Grid": [MAXLEN + 2, 6, 2] if ctx.thorough else [MAXLEN + 2, 4, 1],
                         "GenAcc": {"none", "gzip"}, "MaxOps": 1})
    reqs = [(h[0]["h"], h[0]["af"]) for h in ctx.generate(inst, workers=4)]
    singles = [r for r in reqs if len(r[0]["specs"]) <= 1]
    pairs = [r for r in reqs if len(r[0]["specs"]) == 2]
    triples = [r for r in reqs if len(r[0]["specs"]) == 3]
    ctx.notes["requests_enumerated"] = {"singles": len(singles), "pairs": len(pairs), "triples": len(triples)}

    blobs = []
    for L in range(MAXLEN + 1):
        c = [rng.randint(0, 255) for _ in range(L)]
        blobs.append((c, False, "put"))
        blobs.append((c, True, "put"))
    blobs.append(([ord(x) for x in "abcd"], True, "op"))
    blobs.append(([ord(x) for x in "abcdefg"], False, "op"))
    # blobs stored AS IS whose bytes are themselves a gzip file (a user's .gz uploaded as plain data, compression
    # flag not set) or merely start with the gzip magic 1f 8b: the stored bytes are the content
    gz_tiny = list(gzip.compress(b"abc", mtime=0))
    gz_file = list(gzip.compress(b"the quick brown fox jumps over the lazy dog\n" * 20, mtime=0))
    magic = [0x1F, 0x8B, 8, 0] + [rng.randint(0, 255) for _ in range(12)]
    blobs.append((gz_tiny, False, "put"))
    blobs.append((gz_tiny, False, "op"))
    blobs.append((magic, False, "put"))
    blobs.append(([0x1F, 0x8B], False, "put"))
    execs = []

    def pack(blob, reqs):
        for i in range(0, len(reqs), PER_EXEC):
            execs.append((blob, reqs[i:i + PER_EXEC]))

    for (c, gz, via) in blobs:
        L = len(c)
        # ranges refer to the gzip representation (20..40 bytes) when it is served: do not cut the grid there
        lim = 99 if gz or L > MAXLEN else L + 2
        reqs = [r for r in singles if max(nums(r[0]) or [0]) <= lim]
        pp = [r for r in pairs if max(nums(r[0])) <= lim]
        tt = [r for r in triples if max(nums(r[0])) <= lim]
        if not ctx.thorough:
            pp = rng.sample(pp, min(len(pp), 500))
            tt = rng.sample(tt, min(len(tt), 150))
        reqs += pp + tt
        hi = (L + 2) if not gz else rng.choice([L + 2, 30])
        reqs += [(rand_header(rng, hi), rng.choice(["none", "gzip"])) for _ in range(400 if ctx.thorough else 60)]
        # the other Accept-Encoding forms (list, *, identity, gzip;q=0): a seeded sample of the same requests
        reqs += [(h, rng.choice(OTHER_AF)) for h, _ in rng.sample(reqs, min(len(reqs), 1500 if ctx.thorough else 150))]
        pack((c, gz, via), reqs)
    text = ("the quick brown fox jumps over the lazy dog %d\n" * 30) % tuple(range(30))
    bigs = [([ord(x) for x in text], True, "op"),
            ([ord(x) for x in text[:1100]], True, "put"),
            ([rng.randint(0, 255) for _ in range(300)], False, "put"),
            ([rng.randint(0, 255) for _ in range(1500)], False, "op"),
            (gz_file, False, "put"), (gz_file, False, "op")]
    for b in bigs:
        pack(b, big_requests(rng, len(b[0])))

    script = os.path.join(ctx.out, "script.ndjson")
    if ctx.replay:
        script = os.path.abspath(ctx.replay)
    else:
        with open(script, "w") as f:
            for (c, gz, via), reqs in execs:
                f.write(json.dumps({"ev": "reset", "content": c, "gz": gz, "via": via}) + "\n")
                for h, af in reqs:
                    f.write(json.dumps({"ev": "get", "h": h, "af": af}) + "\n")
    binp = ctx.build("c32")
    trace = ctx.drive(binp, ["--script", script])

    def mutate(evs):
        # corrupt one delivered byte of a 206
        for i, e in enumerate(evs):
            if e["ev"] == "get" and e["res"]["st"] == 206 and e["res"]["parts"] and e["res"]["parts"][0]["b"]:
                m = json.loads(json.dumps(evs))
                m[i]["res"]["parts"][0]["b"][0] = (m[i]["res"]["parts"][0]["b"][0] + 1) % 256
                return m
        return None

    ctx.judge("HttpRangeTrace", trace, "trace_base.cfg", {"MaxLen": 0, "Grid": [-1], "GenAcc": vf.Raw("{}"), "MaxOps": 0},
              nontrivial=lambda e: any('"st":206' in x for x in e), mutate=mutate)

    def mutate2(evs):
        # an empty 200 in answer to a ranged request on a non-empty blob
        if not evs[0]["content"]:
            return None
        for i, e in enumerate(evs):
            if e["ev"] == "get" and e["res"]["st"] in (200, 206) and e["h"]["mal"] == "":
                m = json.loads(json.dumps(evs))
                m[i]["res"].update({"st": 200, "body": [], "parts": [], "mp": False, "gz": m[i]["res"]["ce"] == "gzip"})
                return m
        return None

    ctx._selftest("HttpRangeTrace", vf.split_execs(trace),
                  "trace_base.cfg", {"MaxLen": 0, "Grid": [-1], "GenAcc": vf.Raw("{}"), "MaxOps": 0},
                  set(ctx.kf_open.keys()), 600, False, mutate2)
    ctx.rule = ("requests = TLC-enumerated Range values (every single a-b / a- / -n over 0..%d, %d malformed classes, "
                "every pair over a smaller grid, every triple over a tiny grid) + seeded random 2..5-range headers, "
                "each without Accept-Encoding and with gzip (a seeded sample also with a list, *, identity, gzip;q=0), against blobs of every length 0..%d stored plain and "
                "gzip-compressed (PUT with Content-Encoding and operation.UploadData), 4 larger blobs, and blobs stored as is whose bytes are a gzip file / start with the gzip magic; one execution = "
                "one blob x <= %d requests; non-trivial = contains a 206 answer; distinct by hash of the recorded "
                "execution" % (MAXLEN + 2, 10, MAXLEN, PER_EXEC))
    ctx.exhaustive = True
    ctx.assumptions += ["the gzip codec of the Go standard library (driver side) is trusted",
                        "when the answer carries Content-Encoding: gzip the ranges are judged against the gzip "
                        "representation the same server returned for a complete GET (RFC 7233: ranges refer to the "
                        "selected representation)",
                        "a suffix range on an empty representation admits any answer without bytes"]
