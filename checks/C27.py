"""C27 - S3 object listings are complete and paginate correctly (S3List.tla)."""
import json
import os
import random

import vf

ALPHA = [chr(i) for i in range(32, 127) if chr(i) not in '"\\']
KEYS = ["a", "a/b", "a/c", "ab", "b/c/d", "c/", "a/b/c"]
PREFIXES = ["", "a", "a/", "ab", "b/c", "z"]
STYLES = ["marker", "lastkey", "token", "startafter"]
API = {"marker": "v1", "lastkey": "v1", "token": "v2", "startafter": "v2"}
# initial marker / start-after values of the extra single-loop requests (a key, inside a common prefix,
# a common prefix itself, between keys, beyond everything)
AFTERS = ["a", "a/b", "a/", "aa", "b/c", "zz"]


def t(s):
    return tuple(s)


KFS = ["C27-hidden-entry-ends-listing", "C27-marker-taken-as-path"]


def consts(maxops, afters=("",), keys=KEYS, bkf=None, maxbucket=5, countbug=False):
    c = _consts(maxops, afters, keys, maxbucket)
    if bkf is not None:
        c["BKF"] = set(bkf)      # S3ListImpl only
        c["CountBug"] = countbug
    return c


def _consts(maxops, afters, keys, maxbucket):
    return {"Alpha": tuple(ALPHA), "Keys": {t(k) for k in keys}, "PrefixSet": {t(p) for p in PREFIXES},
            "Delims": {"", "/"}, "MaxKeysSet": {1, 2, 3, 4}, "Styles": set(STYLES),
            "Afters": {t(a) for a in afters}, "MaxBucket": maxbucket, "MaxOps": maxops}


def run(ctx):
    from concurrent.futures import ThreadPoolExecutor
    ctx.sany("S3List", "S3ListImpl", "S3ListTrace")
    kf = sorted(ctx.kf_open.keys())
    rng = random.Random(ctx.seed)
    script = os.path.join(ctx.out, "script.ndjson")
    mc_cfg = open(os.path.join(vf.SPEC, "S3List_mc.cfg")).read()
    if ctx.replay:
        script = ctx.replay
        binp = ctx.build("c27")
    else:
        # one TLC run: the S3 reference listing under the four client continuation rules over every bucket of
        # <= 5 keys x prefix x delimiter x max-keys is admitted by the judge's page rule, terminates and enumerates
        # exactly the item set; the same run emits the grid of (bucket, request) pairs as the script
        # (quick: the buckets over a seeded 5-key part of the universe; thorough: all 120)
        universe = KEYS if ctx.thorough else sorted(rng.sample(KEYS, 5))
        ctx.notes["key_universe"] = universe
        g = ctx.instance("G_S3List", "S3List", mc_cfg + "INVARIANT Emit\n", consts(1, keys=universe))
        # initial markers (not part of the emitted grid: model-checked here, requests added below)
        ga = ctx.instance("MC_S3ListAfter", "S3List", mc_cfg, consts(1, AFTERS, maxbucket=3))
        # layer B (the gateway's listing procedure as a model) against the page rule: with the open deviations
        # admitted every page of the procedure is either fine or attributed to one of them (no third root cause)
        gi = ctx.instance("MC_S3ListImpl", "S3ListImpl", "S3ListImpl_mc.cfg", consts(1, keys=universe, bkf=kf))
        with ThreadPoolExecutor(max_workers=4) as pool:
            fb = pool.submit(ctx.build, "c27")
            fh = pool.submit(ctx.generate, g, "W", 2, 1500)
            fi = pool.submit(ctx.model_check, gi, 2, 1500)
            if ctx.thorough:
                fa = pool.submit(ctx.model_check, ga, 2, 1500)
                fa.result()
            fi.result()
            hists, binp = fh.result(), fb.result()
        if ctx.thorough:
            # the same with initial markers (smaller buckets), and the predictions: without a deviation the model
            # violates the page rule - the counterexamples are the known findings, observed on the real gateway below
            gia = ctx.instance("MC_S3ListImplAfter", "S3ListImpl", "S3ListImpl_mc.cfg",
                               consts(1, AFTERS[:4], bkf=kf, maxbucket=2))
            ctx.model_check(gia, 4, 1500)
            # folders two levels deep with several keys (not in the mandated universe): the procedure as fixed, and
            # the prediction of the miscount that was fixed (CountBug)
            deep = ["a/b/c", "a/b/d", "a/c", "b"]
            gd = ctx.instance("MC_S3ListImplDeep", "S3ListImpl", "S3ListImpl_mc.cfg", consts(1, keys=deep, bkf=kf, maxbucket=4))
            ctx.model_check(gd, 2, 900)
            gdp = ctx.instance("MC_S3ListImplDeepPredict", "S3ListImpl",
                               "SPECIFICATION ImplSpec\nINVARIANT ImplOK\nCHECK_DEADLOCK FALSE\n",
                               consts(1, keys=deep, bkf=kf, maxbucket=4, countbug=True))
            ctx.model_check(gdp, 2, 900, expect_violation="ImplOK", coverage=False)
            for i, k in enumerate(kf):
                gp = ctx.instance("MC_S3ListImplPredict%d" % i, "S3ListImpl",
                                  "SPECIFICATION ImplSpec\nINVARIANT ImplOK\nCHECK_DEADLOCK FALSE\n",
                                  consts(1, AFTERS if "marker" in k else ("",), bkf=[x for x in kf if x != k], maxbucket=2))
                ctx.model_check(gp, 2, 900, expect_violation="ImplOK", coverage=False)
        ctx.notes["grid_total"] = len(hists)
        # group the grid by bucket content and (prefix, delimiter, max-keys): one execution = one bucket state and
        # the loops of the four continuation styles
        groups = {}
        for h in hists:
            r = h[0]
            bk = tuple(sorted("".join(k) for k in r["keys"]))
            groups.setdefault((bk, "".join(r["prefix"]), r["delim"], r["maxkeys"]), []).append(r)
        gkeys = sorted(groups)
        execs = []
        for gk in gkeys:
            for upl in (False, True):
                execs.append((gk[0], upl, "default", groups[gk]))
        if not ctx.thorough:
            # quick: buckets with an in-progress upload and small max-keys first (stratified), then a seeded sample
            # seeded sample, weighted towards requests whose enumeration needs several pages
            def weight(ex):
                bk, _, _, loops = ex
                r = loops[0]
                n = sum(1 for k in bk if k.startswith("".join(r["prefix"])))
                return 0.15 + n / r["maxkeys"]
            ws = [weight(ex) for ex in execs]
            pick = set()
            while len(pick) < min(400, len(execs)):
                pick.add(rng.choices(range(len(execs)), ws)[0])
            execs = [execs[i] for i in sorted(pick)]
        # extra requests outside the mandated grid: initial marker / start-after (single loops), the gateway that
        # shows empty folders, keys put in reverse order (a directory exists before the file of the same name)
        extra = []
        buckets = sorted({gk[0] for gk in gkeys})
        # buckets outside the mandated universe: several keys two folders deep
        buckets += [("a/b/c", "a/b/d", "a/c", "b"), ("a/b/c", "a/b/d", "b/c/d", "b/c/e"), ("a/b/c/d", "a/b/c/e", "a/b/f")] * 3
        nextra = len(buckets) * 4 if ctx.thorough else 60
        for _ in range(nextra):
            bk = rng.choice(buckets)
            loops = []
            for _ in range(4):
                st = rng.choice(STYLES)
                loops.append({"style": st, "prefix": list(rng.choice(PREFIXES)), "delim": rng.choice(["", "/"]),
                              "maxkeys": rng.choice([1, 2, 3, 4]),
                              "after": list(rng.choice(AFTERS)) if st != "token" and rng.random() < 0.6 else []})
            extra.append((bk, rng.random() < 0.5, rng.choice(["default", "allowempty"]), loops, rng.random() < 0.3))
        # deeper trees (several keys two and three folders down), every continuation style, small pages
        deep = [("a/b/c", "a/b/d", "a/c", "b"), ("a/b/c", "a/b/d", "b/c/d", "b/c/e"), ("a/b/c/d", "a/b/c/e", "a/b/f", "c")]
        for bk in deep:
            for pfx, dl in (("", ""), ("", "/"), ("a", ""), ("a/b", "")):
                for mk in (1, 2):
                    extra.append((bk, mk == 1, "default", [{"style": st, "prefix": list(pfx), "delim": dl, "maxkeys": mk, "after": []}
                                                          for st in STYLES]))

        def putorder(ex):
            return list(reversed(ex[0])) if len(ex) > 4 and ex[4] else list(ex[0])
        # the driver keeps one bucket alive at a time: executions on the same content are adjacent
        allx = sorted(execs + extra, key=lambda ex: (putorder(ex), ex[1]))
        with open(script, "w") as f:
            for ex in allx:
                bk, upl, gw, loops = ex[:4]
                keys = putorder(ex)
                f.write(json.dumps({"ev": "reset", "keys": [list(k) for k in keys], "upl": upl, "gw": gw}) + "\n")
                for r in loops:
                    f.write(json.dumps({"ev": "loop", "api": API[r["style"]], "style": r["style"], "prefix": r["prefix"],
                                        "delim": r["delim"], "maxkeys": r["maxkeys"], "after": r.get("after", []),
                                        "maxpages": 12}) + "\n")
        ctx.notes["executions_scripted"] = len(execs) + len(extra)
    trace = ctx.drive(binp, ["--script", script], timeout=2400)

    def mutate(evs):
        # a final page recorded without one of its keys: the enumeration is incomplete
        for i, e in enumerate(evs):
            if e["ev"] == "page" and not e["trunc"] and e["keys"]:
                m = [dict(x) for x in evs]
                m[i]["keys"] = e["keys"][:-1]
                return m
        return None

    ctx.judge("S3ListTrace", trace, "trace_base.cfg", consts(0, bkf=()),
              nontrivial=lambda e: sum('"ev":"page"' in x for x in e) > sum('"ev":"end"' in x for x in e), mutate=mutate)
    ctx.rule = ("executions = every bucket over <= 5 keys of {a, a/b, a/c, ab, b/c/d, c/, a/b/c} (put through the real "
                "gateway in that order), with and without an in-progress multipart upload, x prefix {'', a, a/, ab, b/c, z} "
                "x delimiter {'', /} x max-keys 1..4, each with four pagination loops (V1 NextMarker, V1 last key, V2 "
                "continuation token, V2 start-after) - TLC-enumerated grid (quick: the buckets over a seeded 5-key part of the universe, seeded sample of 400 executions weighted towards multi-page enumerations); "
                "plus seeded loops with an initial marker / start-after, a gateway with AllowEmptyFolder, reverse put "
                "order; non-trivial = some loop has more than one page; distinct by hash")
    ctx.exhaustive = ctx.thorough
    ctx.assumptions += [
        "bucket content = the keys an S3 HEAD finds among: every key that was put and every file the filer holds below "
        "the bucket outside .uploads (so a PUT that the gateway stores elsewhere, or refuses, is not held against the "
        "listing); folders come from a filer listing",
        "the driver plays the client: the continuation of a page is NextMarker / NextContinuationToken, or the last key "
        "of the page for the last-key and start-after styles (the server's marker if the page contains common prefixes); "
        "the judge re-derives every continuation from the previous page (S3List!NextAfter)",
        "a loop is cut after 12 pages (more than twice the number of items any bucket here can hold)",
    ]
