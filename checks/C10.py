"""C10 - new volumes are placed according to their replication setting (Placement.tla)."""
import json
import os
import random

POS = [("n1", "d1", "r1"), ("n2", "d1", "r1"), ("n3", "d1", "r2"), ("n4", "d1", "r2"),
       ("n5", "d2", "r1"), ("n6", "d2", "r1"), ("n7", "d2", "r2"), ("n8", "d2", "r2")]
# server kinds of the model universe (Placement.tla KindCounts): inputs only
KIND = {1: (0, 0, 0, 0), 2: (1, 0, 0, 0), 3: (2, 0, 0, 0), 4: (1, 0, 0, 1), 5: (0, 1, 0, 0)}


def nodes_of_kinds(kinds):
    nodes = []
    for (nid, dc, rack), k in zip(POS, kinds):
        if k == 0:
            continue
        mx, vc, rem, ec = KIND[k]
        nodes.append({"id": nid, "dc": dc, "rack": rack, "gone": False,
                      "disks": [{"t": "", "max": mx, "vc": vc, "rem": rem, "ec": ec}]})
    return nodes


def grow_ev(rp, disk, pref, seed):
    return {"ev": "grow", "rp": list(rp), "disk": disk, "pdc": pref["dc"], "prack": pref["rack"],
            "pnode": pref["node"], "seed": seed}


def random_topology(rng):
    """G4: up to 3 data centers x 3 racks x 4 servers, two disk types, arbitrary counters, servers that left"""
    nodes = []
    i = 0
    for d in range(rng.choice([1, 2, 2, 3, 3])):
        for k in range(rng.choice([1, 2, 2, 3])):
            for _ in range(rng.choice([1, 1, 2, 3, 4])):
                i += 1
                disks = []
                for t in ["", "ssd"]:
                    if t == "ssd" and rng.random() < 0.5:
                        continue
                    mx = rng.choice([0, 1, 2, 3, 5, 8])
                    vc = rng.choice([0, 0, 1, 2, mx, mx, mx + 1]) if mx or rng.random() < 0.3 else 0
                    rem = rng.randint(0, vc) if rng.random() < 0.3 else 0
                    ec = rng.choice([0, 0, 0, 1, 3, 9, 10, 14, 25])
                    disks.append({"t": t, "max": mx, "vc": vc, "rem": rem, "ec": ec})
                nodes.append({"id": "s%d" % i, "dc": "dc%d" % d, "rack": "rk%d" % k, "gone": rng.random() < 0.1, "disks": disks})
    return nodes


def random_requests(rng, nodes, count, seeds):
    evs = []
    live = [n for n in nodes if not n["gone"]]
    for _ in range(count):
        rp = (rng.choice([0, 0, 1, 2]), rng.choice([0, 0, 1, 2]), rng.choice([0, 0, 1, 2]))
        pref = {"dc": "", "rack": "", "node": ""}
        r = rng.random()
        if live and r < 0.5:
            n = rng.choice(live)
            if rng.random() < 0.7:
                pref["dc"] = n["dc"]
            if rng.random() < 0.5:
                pref["rack"] = n["rack"]
            if rng.random() < 0.3:
                pref["node"] = n["id"]
        elif r < 0.55:
            pref["dc"] = "nowhere"
        disk = rng.choice(["", "", "ssd"])
        for _ in range(seeds):
            evs.append(grow_ev(rp, disk, pref, rng.randrange(1, 1 << 30)))
    return evs


def run(ctx):
    ctx.sany("Placement", "PlacementTrace")
    rng = random.Random(ctx.seed * 104729 + 10)
    # 1. the algorithm model (layer B) only ever returns valid placements - over every small topology up to
    #    symmetry, every replication over the digits, every preference; the same run enumerates the requests (G1)
    if ctx.thorough:
        # all six kinds x all digits is millions of requests: the unusual kinds with digits 0..1, the usual kinds with 0..2
        runs = [("kinds", {"Kinds": {0, 2, 4, 5}, "Digits": {0, 1}, "FullPrefs": True}),
                ("digits", {"Kinds": {0, 1, 2}, "Digits": {0, 1, 2}, "FullPrefs": True})]
    else:
        runs = [("small", {"Kinds": {0, 1, 2}, "Digits": {0, 1}, "FullPrefs": False})]
    reqs = []
    for name, c in runs:
        inst = ctx.instance("MC_Placement_" + name, "Placement",
                            "SPECIFICATION PSpec\nINVARIANT AlgoSound\nINVARIANT PEmit\nCHECK_DEADLOCK FALSE", c)
        reqs += ctx.generate(inst, workers=4, timeout=1500)
    ctx.notes["model_requests"] = len(reqs)
    ctx.notes["model_requests_satisfiable"] = sum(1 for r in reqs if r["can"])
    script = os.path.join(ctx.out, "script.ndjson")
    if ctx.replay:
        script = ctx.replay
    else:
        yes = [r for r in reqs if r["can"]]
        no = [r for r in reqs if not r["can"]]
        rng.shuffle(yes)
        rng.shuffle(no)
        nseeds = 4 if ctx.thorough else 2
        pick = yes[:12000 if ctx.thorough else 1400] + no[:3000 if ctx.thorough else 300]
        by_topo = {}
        for r in pick:
            by_topo.setdefault(tuple(r["kinds"]), []).append(r)
        execs = []
        for kinds, rs in sorted(by_topo.items()):
            nodes = nodes_of_kinds(kinds)
            evs = []
            for r in rs:
                for _ in range(nseeds):
                    evs.append(grow_ev(r["rp"], "", r["pref"], rng.randrange(1, 1 << 30)))
            for i in range(0, len(evs), 40):
                execs.append(({"ev": "reset", "nodes": nodes}, evs[i:i + 40]))
        for _ in range(1500 if ctx.thorough else 120):
            nodes = random_topology(rng)
            execs.append(({"ev": "reset", "nodes": nodes}, random_requests(rng, nodes, 8, 5)))
        with open(script, "w") as f:
            for reset, evs in execs:
                f.write(json.dumps(reset) + "\n")
                for e in evs:
                    f.write(json.dumps(e) + "\n")
    binp = ctx.build("c10")
    trace = ctx.drive(binp, ["--script", script])

    def mutate(evs):
        """binding self-test: a successful placement with one server replaced by a repeat must be rejected"""
        for i, e in enumerate(evs):
            if e["ev"] == "grow" and not e["err"] and len(e["servers"]) >= 2:
                m = [dict(x) for x in evs]
                m[i]["servers"] = [e["servers"][0]] + e["servers"][:-1]
                return m
        return None

    ctx.judge("PlacementTrace", trace, "trace_base.cfg", {"Kinds": set(), "Digits": set(), "FullPrefs": False},
              nontrivial=lambda ls: any('"err":false' in x for x in ls), mutate=mutate,
              chunk_events=6000 if not ctx.thorough else 20000, jobs=4 if not ctx.thorough else 8)
    ctx.rule = ("executions = one real topology.Topology per reset (built through the heartbeat calls) and up to 40 calls of "
                "findEmptySlotsForOneVolume on it; requests = TLC-enumerated (topology up to symmetry over 2 data centers x 2 racks "
                "x 2 servers with server kinds absent / no slot / one slot [thorough: also slot eaten by an ec shard, "
                "overcommitted], replication digits 0..1 [thorough 0..2], 17-25 preferences), sampled with a bias to satisfiable ones, "
                "each with several seeds of math/rand, + seeded random larger topologies (<= 3x3x4 servers, two disk types, remote "
                "volumes, ec shards, departed servers) x random requests x 5 seeds; non-trivial = at least one successful placement")
    ctx.exhaustive = False
    ctx.assumptions += ["a free slot is max + remote - volumes - (ecShards/10 + 1 if ecShards > 0), the topology's own definition",
                        "an error is always an admissible answer (the statement forbids wrong and partial placements, it does not promise success)",
                        "map iteration order inside the topology is not controlled: a replay re-draws it"]
