"""C13 - file keys and volume ids are never handed out twice (KeyAlloc.tla, SequencerImpl.tla).

The memory and snowflake executions run twice: on the bare sequencer objects and (reset line "via": "master") inside REAL
master servers (weed/server MasterServer: heartbeats through SendHeartbeat over in-memory streams, assignments through Assign,
harness/cluster/realmaster.go); same events, same judge."""
import json
import os
import random
from concurrent.futures import ThreadPoolExecutor

import vf

REAL_STEPS = 500          # sequence.DefaultEtcdSteps
MODEL_STEPS = 3
MASTERS = ["m1", "m2"]
VOLS = ["v1", "v2"]
MODEL_PRE = [("v2", 2), ("v2", 9)]      # one key inside the first window, one beyond it
KF_MEM = "C13-memory-leader-change-reissue"
KF_SNOW = "C13-snowflake-count-ignored"


def scale(k):
    """a model key / count (relative to MODEL_STEPS) -> the same shape relative to REAL_STEPS"""
    return (k % MODEL_STEPS) + (k // MODEL_STEPS) * REAL_STEPS


def counts(*cs):
    return vf.Raw("{" + ", ".join("[c |-> %d, s |-> %d]" % cs_ for cs_ in cs) + "}")


def bconf(**kw):
    base = dict(Masters=set(MASTERS), Vols=set(VOLS), MaxKey=0, MaxOps=6, Kind="memory",
                Counts=counts((1, 0), (2, 0)), Steps=MODEL_STEPS,
                Pre=vf.Raw("{" + ", ".join('<<"%s", %d>>' % p for p in MODEL_PRE) + "}"),
                SetMaxShape="fixed", CasRetry=True, RefillCas=True, Split=False, KFm=set(), MaxTicks=2, WithVids=False,
                Fresh={True, False}, GDepth=0, MSplit=False, HbOrder="setmax-first")
    base.update(kw)
    return base


def reset_line(kind, masters=MASTERS, pre=None):
    pre = pre if pre is not None else {}
    return {"ev": "reset", "kind": kind, "masters": list(masters), "vols": VOLS,
            "pre": [{"vol": v, "keys": sorted(ks)} for v, ks in sorted(pre.items())]}


def pre_lit(pairs):
    return vf.Raw("{" + ", ".join('<<"%s", %d>>' % p for p in pairs) + "}")


MODEL_PRE_IN = [("v2", 2)]              # only a key inside the first window (SetMax must not ignore it)


def model_pre(pairs=None):
    pre = {}
    for v, k in (pairs if pairs is not None else MODEL_PRE):
        pre.setdefault(v, []).append(scale(k))
    return pre


def hist_to_exec(kind, hist, masters=MASTERS, pre=None):
    """a layer-B history (inputs only) -> one script execution"""
    out = [reset_line(kind, masters, model_pre(pre))]
    for op in hist:
        op = dict(op)
        if kind == "snowflake" and op["ev"] == "leader" and op.get("fresh"):
            out.append({"ev": "tick"})          # a restarted master is not back within the same millisecond
        out.append(op)
    return out


# ------------------------------------------------------------------ G4: python-side random scripts
CNTS = [(1, 0), (1, 0), (2, 0), (3, 0), (7, 0), (499, 0), (0, 1), (1, 1), (0, 2), (250, 0)]


def n_of(c):
    return {"c": c[0], "s": c[1]}


def random_sequential(rng, kind, length):
    """heartbeats, assignments, client writes, leader changes, raw SetMax; the enabling rule
    (assign only at the leader, only for a volume registered there) is respected by construction"""
    masters = MASTERS if rng.random() < 0.8 else ["m1"]
    pre = {}
    for v in VOLS:
        if rng.random() < 0.5:
            pre[v] = rng.sample([1, 2, 5, 99, 100, 499, 500, 501, 502, 1000, 1500, 1501], rng.randint(1, 3))
    ex = [reset_line(kind, masters, pre)]
    leader = masters[0]
    reg = set()
    asgs = []   # counts of the assignments so far
    for _ in range(length):
        r = rng.random()
        if r < 0.25 or not reg:
            m = leader if rng.random() < 0.85 else rng.choice(masters)
            v = rng.choice(VOLS)
            ex.append({"ev": "hb", "m": m, "vol": v})
            reg.add((m, v))
        elif r < 0.65:
            cands = [v for (m, v) in reg if m == leader]
            if not cands:
                continue
            c = rng.choice(CNTS) if kind != "snowflake" else rng.choice([(1, 0), (1, 0), (2, 0), (3, 0)])
            ex.append({"ev": "next", "m": leader, "vol": rng.choice(sorted(cands)), "n": n_of(c)})
            asgs.append(c[0] + c[1] * REAL_STEPS)
        elif r < 0.80 and asgs:
            a = rng.randrange(len(asgs))
            j = rng.choice([0, asgs[a] - 1, rng.randrange(asgs[a])])
            ex.append({"ev": "write", "a": a, "j": {"c": j, "s": 0}})
        elif r < 0.90 and len(masters) > 1:
            m = rng.choice(masters)
            fresh = rng.random() < 0.5
            if m == leader and not fresh:
                continue
            if kind == "snowflake" and fresh:
                ex.append({"ev": "tick"})
            ex.append({"ev": "leader", "m": m, "fresh": fresh})
            leader = m
            reg = set()
        elif r < 0.97:
            ex.append({"ev": "setmax", "m": rng.choice(masters), "v": rng.choice([0, 1, 3, 50, 498, 499, 500, 501, 777, 1200, 2600])})
        elif kind == "snowflake":
            ex.append({"ev": "tick"})
    return ex


def random_storm(rng, kind, pid_base=1):
    """sequential set-up (heartbeats), one goroutine storm of assignments and SetMax calls, then a
    sequential tail. Memory: one master. Etcd: two sequencer objects over one shared register."""
    masters = ["m1"] if kind == "memory" else MASTERS
    pre = {}
    if rng.random() < 0.6:
        pre["v2"] = rng.sample([3, 40, 499, 500, 501, 1100], 2)
    ex = [reset_line(kind, masters, pre)]
    for m in masters:
        for v in VOLS:
            ex.append({"ev": "hb", "m": m, "vol": v})
    if rng.random() < 0.5:
        ex.append({"ev": "next", "m": "m1", "vol": "v1", "n": n_of(rng.choice(CNTS))})
    nproc = rng.randint(2, 4)
    per = {p: rng.randint(2, 5) for p in range(1, nproc + 1)}
    calls = []
    for p, k in per.items():
        m = masters[(p - 1) % len(masters)]
        for _ in range(k):
            if rng.random() < 0.75:
                c = rng.choice(CNTS) if kind != "snowflake" else rng.choice([(1, 0), (2, 0), (3, 0)])
                calls.append({"ev": "call", "p": p, "op": "next", "m": m, "vol": rng.choice(VOLS), "n": n_of(c),
                              "v": 0, "gate": False})
            else:
                calls.append({"ev": "call", "p": p, "op": "setmax", "m": m, "vol": "", "n": n_of((0, 0)),
                              "v": rng.choice([0, 2, 30, 499, 500, 501, 900, 1600, 2500]), "gate": False})
    rng.shuffle(calls)      # order between processes is irrelevant; order within a process is the list order
    ex += calls
    for m in masters:
        ex.append({"ev": "next", "m": m, "vol": rng.choice(VOLS), "n": n_of((1, 0))})
    return ex


def random_vids(rng, length):
    ex = [reset_line("memory", MASTERS, {})]
    leader = "m1"
    for _ in range(length):
        r = rng.random()
        if r < 0.5:
            ex.append({"ev": "nextvid", "m": leader})
        elif r < 0.8:
            ex.append({"ev": "volreg", "m": rng.choice(MASTERS), "id": rng.choice([1, 2, 3, 5, 8, 13, 40])})
        else:
            leader = rng.choice(MASTERS)
            ex.append({"ev": "leader", "m": leader, "fresh": False})
    return ex


def via_master(ex):
    """the same script against real master servers (memory / snowflake sequencer inside weed/server), or None"""
    if ex[0].get("kind") not in ("memory", "snowflake") or ex[0].get("via"):
        return None
    return [dict(ex[0], via="master")] + [dict(op) for op in ex[1:]]


def gated_master(rng):
    """G4 (real masters only): a heartbeat whose handler is parked at the entry of Sequence.SetMax, an assignment for
    the same volume issued meanwhile, release; the volume holds keys no sequencer object of the execution handed out"""
    masters = MASTERS if rng.random() < 0.5 else ["m1"]
    vol, other = rng.sample(VOLS, 2)
    pre = {vol: sorted(set([1] + rng.sample([2, 3, 7, 40, 499, 500, 501, 1200], rng.randint(1, 3))))}
    if rng.random() < 0.3:
        pre[vol] = pre[vol][1:]                 # key 1 itself is free: only a larger count runs into a key in use
    ex = [dict(reset_line("memory", masters, pre), via="master")]
    m = rng.choice(masters)
    if rng.random() < 0.6:
        # another volume server is known to the master: the assignment waits for a writable volume instead of being refused
        ex.append({"ev": "hb", "m": m, "vol": other})
        if rng.random() < 0.5:
            ex.append({"ev": "next", "m": m, "vol": other, "n": n_of((1, 0))})
    if len(masters) > 1 and rng.random() < 0.4:
        ex.append({"ev": "leader", "m": m, "fresh": rng.random() < 0.5})
    c = rng.choice([(1, 0), (2, 0), (3, 0), (7, 0), (0, 1)])
    ex.append({"ev": "call", "p": 1, "op": "hb", "m": m, "vol": vol, "n": n_of((0, 0)), "v": 0, "gate": True})
    ex.append({"ev": "call", "p": 2, "op": "next", "m": m, "vol": vol, "n": n_of(c), "v": 0, "gate": False, "bg": True})
    ex.append({"ev": "release", "p": 1, "again": False})
    ex.append({"ev": "next", "m": m, "vol": vol, "n": n_of((1, 0))})
    return ex


def write_script(path, execs):
    with open(path, "w") as f:
        for ex in execs:
            for op in ex:
                f.write(json.dumps(op) + "\n")


def judge_all(ctx, traces):
    def mutate(evs):
        if evs[0].get("kind") != "etcd" or any(e["ev"] in ("leader", "call") for e in evs):
            return None
        seen = {}
        for i, e in enumerate(evs):
            if e["ev"] == "next":
                if e["vol"] in seen:
                    m = [dict(x) for x in evs]
                    m[i]["start"] = seen[e["vol"]]
                    return m
                seen[e["vol"]] = e["start"]
        return None

    consts = {"Masters": set(MASTERS), "Vols": set(VOLS), "MaxKey": 0, "MaxOps": 0, "RealSteps": REAL_STEPS}
    for i, t in enumerate(traces):
        ctx.judge("KeyAllocTrace", t, "trace_base.cfg", consts,
                  nontrivial=lambda e: sum(1 for x in e if '"ev":"next"' in x or '"ev":"nextvid"' in x or
                                           ('"ev":"ret"' in x)) >= 2,
                  mutate=mutate if i == 0 else None, label="-%d" % i)


def run(ctx):
    ctx.sany("KeyAlloc", "KeyAllocTrace", "SequencerImpl")
    th = ctx.thorough
    if ctx.replay:
        ctx.rule = "replay of the script " + ctx.replay
        return judge_all(ctx, [ctx.drive(ctx.build("c13"), ["--script", ctx.replay])])
    D = 7 if th else 5

    # ---- 1. model checking: layer A alone; layer B refines it (with the open findings admitted);
    #         without them the model reproduces the suspects (expected violations)
    jobs = []

    def mc(name, spec, cfg, consts, **kw):
        jobs.append(("mc", ctx.instance(name, spec, cfg, consts), kw))

    def gen(name, consts, kind, masters=MASTERS, pre=None, via=None):
        jobs.append(("gen", ctx.instance(name, "SequencerImpl", "SequencerImpl_gen.cfg", consts),
                     dict(kind=kind, masters=masters, pre=pre, via=via)))

    mc("MC_KeyAlloc", "KeyAlloc", "KeyAlloc_mc.cfg",
       dict(Masters=set(MASTERS), Vols=set(VOLS), MaxKey=3, MaxOps=4 if th else 3), label="layer A")
    mc("MC_B_mem1", "SequencerImpl", "SequencerImpl_mc.cfg", bconf(Masters={"m1"}, Fresh={False}, MaxOps=D + 1),
       label="memory sequencer, one master, never restarted")
    mc("MC_B_mem2_kf", "SequencerImpl", "SequencerImpl_mc.cfg", bconf(KFm={KF_MEM}, MaxOps=D),
       label="memory sequencer, two masters, finding admitted")
    mc("MC_B_etcd", "SequencerImpl", "SequencerImpl_mc.cfg",
       bconf(Kind="etcd", Split=True, MaxOps=D, Counts=counts((1, 0), (2, 0), (0, 1)) if th else counts((1, 0), (2, 0))),
       label="etcd sequencer as repaired (SetMax moves past the seen value, CAS retried), Get/CAS interleaved")
    mc("MC_B_snow_kf", "SequencerImpl", "SequencerImpl_mc.cfg", bconf(Kind="snowflake", KFm={KF_SNOW}, MaxOps=D),
       label="snowflake, counts 1 and 2, finding admitted")
    mc("MC_B_vids", "SequencerImpl", "SequencerImpl_mc.cfg",
       bconf(WithVids=True, Vols={"v1"}, Counts=counts((1, 0)), KFm={KF_MEM}, MaxOps=D), label="volume ids through raft")
    mc("MC_B_mhb", "SequencerImpl", "SequencerImpl_mc.cfg", bconf(MSplit=True, KFm={KF_MEM}, MaxOps=D),
       label="memory sequencer inside the master: heartbeat handler parked at SetMax, assignments served meanwhile (order of the code)")
    if th:
        mc("MC_B_etcd_in", "SequencerImpl", "SequencerImpl_mc.cfg",
           bconf(Kind="etcd", Split=True, MaxOps=D, Pre=pre_lit(MODEL_PRE_IN)),
           label="etcd sequencer as repaired, the only pre-existing key lies inside the first window")
        mc("MC_B_snow1", "SequencerImpl", "SequencerImpl_mc.cfg", bconf(Kind="snowflake", Counts=counts((1, 0)), MaxOps=D),
           label="snowflake, count 1 only")
    # ---- 2. generators: witnesses to depth GDepth + every schedule on which the MODEL breaks the
    #         property (suspect-shaped configurations, no finding admitted): all are replayed on the real code
    g = 4 if th else 2
    gen("G_mem", bconf(GDepth=g, MaxOps=D), "memory")
    gen("G_etcd_old", bconf(Kind="etcd", SetMaxShape="old", GDepth=3 if th else g, MaxOps=D if th else 4,
                            Counts=counts((1, 0), (2, 0), (0, 1))), "etcd")
    gen("G_etcd_old_in", bconf(Kind="etcd", SetMaxShape="old", GDepth=0, MaxOps=D if th else 4, Pre=pre_lit(MODEL_PRE_IN),
                               Fresh={False}), "etcd", pre=MODEL_PRE_IN)
    # a refill whose write is not a compare-and-swap: two masters reserve the same batch when one master's
    # Get and Set fall between the other's Get and Set (replayed with the parked Get of the fake KeysAPI)
    gen("G_etcd_blind", bconf(Kind="etcd", RefillCas=False, Split=True, GDepth=0, MaxOps=7 if th else 6, Vols={"v1"},
                              Counts=counts((1, 0), (0, 1)) if th else counts((1, 0)), Pre=pre_lit([]), Fresh={False}),
        "etcd", pre=[])
    # a heartbeat handler that registers the volumes before it tells the sequencer their largest key: every schedule
    # on which an assignment served in between re-issues a key in use (replayed on real masters with the gated sequencer)
    gen("G_mhb_late", bconf(MSplit=True, HbOrder="register-first", GDepth=0, MaxOps=6 if th else 5, Fresh={False},
                            Masters=set(MASTERS) if th else {"m1"}), "memory", MASTERS if th else ["m1"], via="master")
    gen("G_snow", bconf(Kind="snowflake", GDepth=g, MaxOps=D - 1, Counts=counts((1, 0), (3, 0))), "snowflake")
    gen("G_vids", bconf(WithVids=True, Vols={"v1"}, Counts=counts((1, 0)), GDepth=4 if th else 3, MaxOps=4 if th else 3), "memory")
    if th:
        gen("G_mem1", bconf(Masters={"m1"}, GDepth=g + 1, MaxOps=D), "memory", ["m1"])
        gen("G_etcd_split", bconf(Kind="etcd", CasRetry=False, Split=True, GDepth=g, MaxOps=7), "etcd")

    def do(job):
        what, inst, kw = job
        if what == "mc":
            return ctx.model_check(inst, workers=1, timeout=1500, label=kw.get("label"))
        return ctx.generate(inst, workers=1, timeout=1500)

    with ThreadPoolExecutor(max_workers=4) as pool:
        results = list(pool.map(do, jobs))
    execs = []
    mgated = []         # schedules that only make sense on real masters (a parked heartbeat handler)
    model_cex = {}
    for job, res in zip(jobs, results):
        if job[0] != "gen":
            continue
        name = os.path.basename(job[1][0])[:-4]
        for h in res:
            ex = hist_to_exec(job[2]["kind"], h, job[2]["masters"], job[2]["pre"])
            if job[2]["via"]:
                mgated.append([dict(ex[0], via=job[2]["via"])] + ex[1:])
            else:
                execs.append(ex)
        model_cex[name] = len(res)
    ctx.notes["model_generated_schedules"] = model_cex
    n_model = len(execs)
    # regression: the minimal failing execution of every finding of this property, open or fixed
    for f in vf.load_known_findings():
        if f["property"] == "C13":
            execs.append([dict(e) for e in f["minimal"]])
    # the model must still reproduce the suspects without the findings (documents what the generators are for)
    for name, consts, inv in [
            ("X_mhb_late", bconf(MSplit=True, HbOrder="register-first", Masters={"m1"}, Fresh={False}, MaxOps=D), "NoReuse"),
            ("X_mem2", bconf(MaxOps=D), "NoReuse"),
            ("X_etcd_old", bconf(Kind="etcd", SetMaxShape="old", MaxOps=D), "NoReuse"),
            ("X_snow", bconf(Kind="snowflake", MaxOps=D), "NoReuse")] if th else []:
        ctx.model_check(ctx.instance(name, "SequencerImpl", "SequencerImpl_mc.cfg", consts), workers=2,
                        expect_violation=inv, label="expected: the model reproduces the suspect")

    # ---- 3. G4: seeded random scripts: long sequential histories, goroutine storms, volume ids
    rng = random.Random(ctx.seed)
    nseq, nstorm = (400, 400) if th else (60, 60)
    for kind in ("memory", "etcd", "snowflake"):
        for _ in range(nseq):
            execs.append(random_sequential(rng, kind, rng.randint(8, 30)))
    storms = []
    for kind in ("memory", "etcd", "snowflake"):
        for _ in range(nstorm):
            storms.append(random_storm(rng, kind))
    for _ in range(nseq):
        execs.append(random_vids(rng, rng.randint(4, 14)))

    # ---- 4. the memory / snowflake executions once more inside real master servers (SendHeartbeat, Assign)
    #         every regression execution and random history, the model-generated schedules sampled to a cap
    mmodel = [m for m in map(via_master, execs[:n_model]) if m]
    cap = 2000 if th else 250
    if len(mmodel) > cap:
        mmodel = rng.sample(mmodel, cap)
    mseq = mmodel + [m for m in map(via_master, execs[n_model:]) if m]
    gcap = 400 if th else 40
    mseq += (rng.sample(mgated, gcap) if len(mgated) > gcap else mgated) + [gated_master(rng) for _ in range(150 if th else 25)]
    mstorm = [m for m in map(via_master, storms) if m]
    ctx.notes["real_master_executions"] = {"sequential": len(mseq), "storms": len(mstorm)}

    binp = ctx.build("c13")
    s1 = os.path.join(ctx.out, "script-seq.ndjson")
    write_script(s1, execs)
    s2 = os.path.join(ctx.out, "script-storm.ndjson")
    write_script(s2, storms)
    s3 = os.path.join(ctx.out, "script-master.ndjson")
    write_script(s3, mseq + mstorm)
    traces = [ctx.drive(binp, ["--script", s1], name="trace-seq"),
              ctx.drive(binp, ["--script", s2], name="trace-storm"),
              ctx.drive(binp, ["--script", s3], name="trace-master")]
    if th:
        racebin = ctx.build("c13", race=True)
        traces.append(ctx.drive(racebin, ["--script", s2, "--mode", "race"], name="trace-race", timeout=1500))

    judge_all(ctx, traces)
    ctx.rule = ("executions = (a) TLC-generated schedules of the layer-B model SequencerImpl (one witness per "
                "(state, last operation) to depth %d for memory / etcd / snowflake / volume ids, plus EVERY bounded "
                "schedule on which the model itself re-issues a key: old etcd SetMax shape, etcd SetMax without "
                "CAS retry under Get/CAS interleaving, etcd batch refill written without compare-and-swap, memory with two masters, snowflake with counts > 1) replayed "
                "on the real sequencer objects; (b) seeded random sequential histories of 8-30 operations per "
                "sequencer kind with counts around the etcd step (499/500/501/1000), pre-existing keys, raw SetMax "
                "values, leader changes with and without a fresh object; (c) goroutine storms (2-4 goroutines x 2-5 "
                "calls) on one memory sequencer / two etcd sequencers over one register / snowflake, logged as "
                "call/ret; (d) NextVolumeId / volume registration / leader change histories; thorough: the storms "
                "again under the race detector; (e) the memory and snowflake executions of (a)-(d) once more inside real master "
                "servers (one weed/server MasterServer per master name; heartbeat = full heartbeat through SendHeartbeat on an "
                "in-memory stream, assignment = Assign, leader change = all streams break / a new MasterServer), sampled to a cap, "
                "plus schedules with a heartbeat handler parked at the entry of Sequence.SetMax (gate around the master's sequencer) and "
                "an assignment for the same volume issued meanwhile: every such schedule on which a register-before-SetMax model re-issues "
                "a key, and seeded random ones with keys in the volume that no sequencer object handed out. non-trivial = at least two assignments; distinct by hash of the "
                "recorded execution" % g)
    ctx.exhaustive = True
    ctx.assumptions += [
        "the etcd cluster is an in-memory client.KeysAPI with atomic Get/Set(PrevValue)/Create; its failure modes (timeouts, lost responses) are not explored",
        "raft is a stub whose Do applies the MaxVolumeIdCommand on every master's topology (a committed command); NextVolumeId is called serially (VolumeGrowth.accessLock in the system)",
        "real master servers: public constructor, raft replaced by a stand-in that is always leader and applies a command on every master, no listener; one volume server and one collection per volume; the volume server of a volume reports exactly that volume's largest key",
        "a heartbeat is SetMax(largest key in use in that volume) followed by registration; the master assigns only for volumes registered with it (the enabling rule of the system)",
        "snowflake ids (~2^60) are recorded through an order preserving map that caps gaps at 2^20; overlap and equality of ranges shorter than 2^20 are preserved exactly",
        "real time: 'tick' sleeps 2 ms; whether two snowflake calls share a millisecond is observed, not controlled",
    ]
