"""X05 (spec growth, not one of the listed properties) - several filers with separate stores kept in step by the
metadata aggregator (weed/filer/meta_aggregator.go, meta_replay.go, weed/server/filer_grpc_server_sub_meta.go).
Layer A MetaAgg.tla (statement + generator + convergence invariant), layer B MetaAggImpl.tla (offset record, lastTsNs,
the two buffers, restart), judge MetaAggTrace.tla, driver cagg (2 or 3 real filer servers in one process)."""
import json
import os
import random

GIDS = ["c%d" % i for i in range(1, 13)]


def consts(n, maxops=0, restart=False, paths=("a", "b")):
    return {"Filers": set(range(1, n + 1)), "GPaths": set(paths), "GIds": GIDS, "MaxOps": maxops, "GenRestart": restart}


def impl(mode, restarts, changes, notifies=False, selfs="minute", client=False, paths=("a", "b")):
    return {"Filers": {1, 2}, "Paths": set(paths), "MaxChanges": changes, "MaxRestarts": restarts, "PersistMode": mode,
            "ReplayNotifies": notifies, "SelfSince": selfs, "WithClient": client}


def cfg(*invs):
    return "SPECIFICATION Spec\n" + "".join("INVARIANT %s\n" % i for i in invs) + "CHECK_DEADLOCK FALSE\n"


def model_checks(ctx):
    """Design level: layer A (the statement) and layer B (the mechanism) are model-checked; the configurations that
    stand for the pinned code's behaviour around a restart must FAIL (TLC exhibits what the driver then reproduces)."""
    from concurrent.futures import ThreadPoolExecutor
    t = ctx.thorough
    all_inv = ("ExactlyOnce", "Refines", "NoLoop", "OffsetSound", "NoLoss")
    one = ("a",)
    runs = [
        # layer A, two filers: quiet stores without concurrent writes to one name agree (restarts included)
        ("MC_X05_A2", "MetaAgg", cfg("CausalConverge", "SomeLastWriter", "VcOwn"), consts(2, 4 if t else 3, True), None,
         "layer A, 2 filers"),
        # layer A, three filers: they need not - changes of two origins reach the third filer over independent streams
        ("MC_X05_A3", "MetaAgg", cfg("CausalConverge"), consts(3, 3, paths=one), "CausalConverge", "layer A, 3 filers: no causal delivery"),
        ("MC_X05_B_norestart", "MetaAggImpl", cfg(*all_inv), impl("minute", 0, 4 if t else 3, paths=one), None,
         "layer B as the code, no restart"),
        ("MC_X05_B_client", "MetaAggImpl", cfg(*all_inv, "ClientOnce"), impl("minute" if t else "atomic", 0, 2, client=True, paths=one), None,
         "layer B, no restart, with a subscriber"),
        ("MC_X05_B_atomic", "MetaAggImpl", cfg(*all_inv), impl("atomic", 1, 4 if t else 3), None,
         "layer B, offset saved together with the change, 1 restart"),
        ("MC_X05_B_code", "MetaAggImpl", cfg("ExactlyOnce", "Refines"), impl("minute", 1, 3), ("ExactlyOnce", "Refines"),
         "layer B as the code, 1 restart: stale offset"),
        ("MC_X05_B_each", "MetaAggImpl", cfg("ExactlyOnce", "Refines"), impl("each", 1, 3), ("ExactlyOnce", "Refines"),
         "layer B, offset saved after every change as a second write, 1 restart"),
        ("MC_X05_B_loop", "MetaAggImpl", cfg("NoLoop"), impl("minute", 0, 2, notifies=True, client=True), "NoLoop",
         "layer B, Replay through the filer instead of the store"),
        ("MC_X05_B_resume", "MetaAggImpl", cfg("ClientOnce"), impl("atomic", 1, 2, client=True, paths=one), "ClientOnce",
         "layer B, a subscriber resuming on a restarted filer"),
    ]

    def one_run(r):
        name, mod, c, k, exp, label = r
        inst = ctx.instance(name, mod, c, k)
        if exp:
            ctx.model_check(inst, workers=2, timeout=900, expect_violation=exp, coverage=False, label=label)
        else:
            ctx.model_check(inst, workers=2, timeout=1800, label=label)

    with ThreadPoolExecutor(max_workers=2) as pool:
        for f in [pool.submit(one_run, r) for r in runs]:
            f.result()


# ------------------------------------------------------------------------------------------- scripts

def finish(ops, rng, n, late=False):
    """ids for the writes, some lookups, barriers; every execution ends quiet."""
    out = []
    k = 0
    held = set()
    restarted = False
    for op in ops:
        op = dict(op)
        if op["ev"] in ("put", "upd"):
            k += 1
            op["id"] = "c%d" % k
        if op["ev"] == "hold":
            held.add((op["f"], op["g"]))
        if op["ev"] == "release":
            held.discard((op["f"], op["g"]))
        if op["ev"] == "holdc":
            held.add(("c", op["c"]))
        if op["ev"] == "releasec":
            held.discard(("c", op["c"]))
        if op["ev"] == "restart":
            restarted = True
        out.append(op)
        if op["ev"] in ("put", "upd", "del", "mv") and rng.random() < 0.25:
            out.append({"ev": "look", "f": rng.randint(1, n), "p": op.get("q", op["p"])})
        if not held and rng.random() < 0.15:
            out.append({"ev": "sync"})
    for (f, g) in sorted(held, key=str):
        out.append({"ev": "releasec", "c": g} if f == "c" else {"ev": "release", "f": f, "g": g})
    out.append({"ev": "sync"})
    if late or (restarted and rng.random() < 0.5):
        for f in range(1, n + 1):
            out.append({"ev": "sub", "f": f, "kind": rng.choice(["agg", "loc"])})
        out.append({"ev": "sync"})
    return out


def rand_ops(rng, n, length, paths=("a", "b", "c")):
    ops = []
    for _ in range(length):
        f = rng.randint(1, n)
        p = rng.choice(paths)
        r = rng.random()
        if r < 0.45:
            ops.append({"ev": "put", "f": f, "p": p})
        elif r < 0.6:
            ops.append({"ev": "upd", "f": f, "p": p})
        elif r < 0.8:
            ops.append({"ev": "del", "f": f, "p": p})
        else:
            ops.append({"ev": "mv", "f": f, "p": p, "q": rng.choice([q for q in paths if q != p])})
    return ops


def with_holds(rng, n, ops):
    """hold one or two links from the start (or from the middle) and let them go later"""
    links = [(f, g) for f in range(1, n + 1) for g in range(1, n + 1) if f != g]
    res = list(ops)
    for (f, g) in rng.sample(links, rng.choice([1, 1, 2])):
        i = rng.randint(0, max(0, len(res) - 1))
        j = rng.randint(i + 1, len(res) + 1)
        res.insert(i, {"ev": "hold", "f": f, "g": g})
        res.insert(j, {"ev": "release", "f": f, "g": g})
    return res


def restart_conflict(rng, n):
    """a name written on g, then on f (which has g's change), then f restarts"""
    f, g = rng.sample(range(1, n + 1), 2)
    p = rng.choice(["a", "b"])
    first = rng.choice([[{"ev": "put", "f": g, "p": p}],
                        [{"ev": "put", "f": g, "p": p}, {"ev": "del", "f": g, "p": p}],
                        [{"ev": "put", "f": g, "p": "b" if p == "a" else "a"}, {"ev": "mv", "f": g, "p": "b" if p == "a" else "a", "q": p}]])
    second = rng.choice([[{"ev": "put", "f": f, "p": p}], [{"ev": "upd", "f": f, "p": p}], [{"ev": "del", "f": f, "p": p}],
                         [{"ev": "put", "f": f, "p": p}, {"ev": "mv", "f": f, "p": p, "q": "c"}]])
    ops = first + [{"ev": "sync"}] + second
    if rng.random() < 0.5:
        ops.append({"ev": "sync"})
    ops.append({"ev": "restart", "f": f})
    ops += rand_ops(rng, n, rng.randint(0, 2))
    return ops


def causal3(rng):
    """three filers: h writes, g overwrites after it has h's change, f gets g's change first"""
    f, g, h = rng.sample([1, 2, 3], 3)
    p = rng.choice(["a", "b"])
    ops = [{"ev": "hold", "f": f, "g": h}, {"ev": "put", "f": h, "p": p}, {"ev": "await", "f": g, "p": p, "want": "c1"}]
    ops.append(rng.choice([{"ev": "put", "f": g, "p": p}, {"ev": "upd", "f": g, "p": p}, {"ev": "del", "f": g, "p": p}]))
    if ops[-1]["ev"] == "del":
        ops.append({"ev": "await", "f": f, "p": p, "want": ""})
    else:
        ops.append({"ev": "await", "f": f, "p": p, "want": "c2"})
    ops.append({"ev": "release", "f": f, "g": h})
    return ops


def rotation_gap(rng, n, stuck=False):
    """a subscriber of f's aggregated stream is one change behind when the aggregated buffer's timer fires"""
    f, g = rng.sample(range(1, n + 1), 2)
    c = 2 * f - 1
    ops = [{"ev": "holdc", "c": c}, {"ev": "put", "f": g, "p": "a"}, {"ev": "await", "f": f, "p": "a", "want": "c1"},
           {"ev": "put", "f": g, "p": "b"}, {"ev": "await", "f": f, "p": "b", "want": "c2"},
           {"ev": "rotate", "f": f, "buf": "agg"}, {"ev": "releasec", "c": c}]
    if not stuck:
        # the filer's own log is flushed next: the subscriber continues from there
        ops += [{"ev": "put", "f": f, "p": "d"}, {"ev": "rotate", "f": f, "buf": "loc"}, {"ev": "put", "f": g, "p": "e"}]
    return ops


def segment_skip(rng, n):
    """g's subscription to f's local log is one change behind when f's log buffer is flushed, and that buffer began
    in the previous calendar minute (waits for the wall clock: up to a minute)"""
    f, g = rng.sample(range(1, n + 1), 2)
    return [{"ev": "rotate", "f": f, "buf": "loc"}, {"ev": "waitsec", "s": 48}, {"ev": "put", "f": f, "p": "x", "id": "c1"}, {"ev": "sync"},
            {"ev": "waitmin"}, {"ev": "hold", "f": g, "g": f}, {"ev": "put", "f": f, "p": "y", "id": "c2"},
            {"ev": "put", "f": f, "p": "d", "id": "c3"}, {"ev": "rotate", "f": f, "buf": "loc"}, {"ev": "release", "f": g, "g": f},
            {"ev": "put", "f": f, "p": "z", "id": "c4"}, {"ev": "rotate", "f": f, "buf": "loc"}, {"ev": "sync"}]


def with_rotations(rng, n, ops):
    """timer rotations while everybody has caught up (after a barrier) must not be noticed"""
    res = list(ops)
    i = rng.randint(0, len(res))
    res[i:i] = [{"ev": "sync"}, {"ev": "rotate", "f": rng.randint(1, n), "buf": rng.choice(["agg", "loc"])}]
    return res


def write_script(path, execs):
    with open(path, "w") as f:
        for x in execs:
            f.write(json.dumps({"ev": "reset"}) + "\n")
            for op in x:
                f.write(json.dumps(op) + "\n")


def run(ctx):
    from concurrent.futures import ThreadPoolExecutor
    ctx.sany("MetaAgg", "MetaAggImpl", "MetaAggTrace")
    rng = random.Random(ctx.seed)
    t = ctx.thorough
    if ctx.replay:
        binp = ctx.build("cagg")
        n = 2
        for line in open(ctx.replay):
            e = json.loads(line)
            if e.get("ev") == "reset" and e.get("n"):
                n = max(n, e["n"])
            for k in ("f", "g"):
                if isinstance(e.get(k), int):
                    n = max(n, e[k])
        trace = ctx.drive(binp, ["-n", n, "--script", ctx.replay], timeout=1200)
        ctx.judge("MetaAggTrace", trace, "trace_base.cfg", consts(n))
        return
    with ThreadPoolExecutor(max_workers=2) as pool:
        fb = pool.submit(ctx.build, "cagg")
        # TLC as generator: one shortest history per distinct (stores, backlog, last operation) of the layer-A model
        g2 = ctx.instance("G2_X05", "MetaAgg", "SPECIFICATION Spec\nINVARIANT EmitW\nVIEW View\nCHECK_DEADLOCK FALSE",
                          consts(2, 4 if t else 3, False))
        hs = ctx.generate(g2, workers=4, timeout=1200)
        binp = fb.result()
    # the model checks run while the drivers (no TLC) do their work
    mc_pool = ThreadPoolExecutor(max_workers=1)
    mc_done = mc_pool.submit(model_checks, ctx)
    hs = [h for h in hs if len(h) >= 2]
    ctx.notes["tlc_histories_total"] = len(hs)
    hs = rng.sample(hs, min(len(hs), 450 if t else 90))
    ex2 = [finish(h, rng, 2) for h in hs]
    ex2 += [finish(rand_ops(rng, 2, rng.randint(3, 7)), rng, 2, late=rng.random() < 0.2) for _ in range(300 if t else 40)]
    ex2 += [finish(with_holds(rng, 2, rand_ops(rng, 2, rng.randint(3, 6))), rng, 2) for _ in range(300 if t else 40)]
    ex2 += [finish(with_rotations(rng, 2, rand_ops(rng, 2, rng.randint(3, 6))), rng, 2) for _ in range(100 if t else 12)]
    ex2 += [finish(rotation_gap(rng, 2), rng, 2) for _ in range(8 if t else 2)]
    rng.shuffle(ex2)
    # restarts are slow (the peers retry a lost stream only after 1.7 s): few of them, spread over the run so that
    # some happen after the first minute (the offset record then exists)
    nres = 40 if t else 7
    res2 = [finish(restart_conflict(rng, 2), rng, 2) for _ in range(nres)]
    res2 += [finish(rand_ops(rng, 2, 3) + [{"ev": "restart", "f": rng.randint(1, 2)}] + rand_ops(rng, 2, 2), rng, 2, late=True)
             for _ in range(nres // 3)]
    step = max(1, len(ex2) // (len(res2) + 1))
    for i, r in enumerate(res2):
        ex2.insert(min(len(ex2), (i + 1) * step + i), r)
    ex3 = [finish(causal3(rng), rng, 3) for _ in range(12 if t else 3)]
    ex3 += [finish(with_holds(rng, 3, rand_ops(rng, 3, rng.randint(3, 7))), rng, 3) for _ in range(250 if t else 30)]
    ex3 += [finish(rand_ops(rng, 3, rng.randint(3, 7)), rng, 3) for _ in range(100 if t else 15)]
    ex3 += [finish(restart_conflict(rng, 3), rng, 3, late=True) for _ in range(10 if t else 2)]
    ex3 += [finish(rotation_gap(rng, 3), rng, 3) for _ in range(4 if t else 1)]
    if t:
        ex3 += [finish(rotation_gap(rng, 3, stuck=True), rng, 3), segment_skip(rng, 3)]
    rng.shuffle(ex3)
    s2, s3 = os.path.join(ctx.out, "script2.ndjson"), os.path.join(ctx.out, "script3.ndjson")
    write_script(s2, ex2)
    write_script(s3, ex3)
    with ThreadPoolExecutor(max_workers=3) as pool:
        f2 = pool.submit(ctx.drive, binp, ["-n", 2, "--script", s2], 3000, None, "trace2")
        f3 = pool.submit(ctx.drive, binp, ["-n", 3, "--script", s3], 3000, None, "trace3")
        f4 = pool.submit(ctx.drive, binp, ["--mode", "shutdown"], 300, None, "trace_shutdown")
        t2, t3, t4 = f2.result(), f3.result(), f4.result()
    with open(t2, "a") as f:
        f.write(open(t4).read())
    mc_done.result()
    mc_pool.shutdown()

    def mutate(evs):
        # a store listing that lacks a name, or shows an older payload
        for i, e in enumerate(evs):
            if e["ev"] == "ls" and len(e["ents"]) >= 2 and any(x["ev"] in ("put", "upd") and x["f"] != e["f"] for x in evs[:i]):
                m = [dict(x) for x in evs]
                m[i]["ents"] = e["ents"][1:]
                return m
        return None

    def mutate_got(evs):
        # a subscriber handed one change of a peer twice
        for i, e in enumerate(evs):
            if e["ev"] == "got" and e["kind"] == "agg" and not any(x["ev"] == "restart" for x in evs):
                for j, x in enumerate(e["evs"]):
                    if x["o"] not in (0, e["f"]):
                        m = [dict(y) for y in evs]
                        m[i]["evs"] = e["evs"][:j + 1] + [x] + e["evs"][j + 1:]
                        return m
        return None

    nt = lambda ls: any('"ev":"got"' in s and '"sg":[' in s for s in ls) or any('"ev":"shutdown"' in s for s in ls)
    ctx.judge("MetaAggTrace", t2, "trace_base.cfg", consts(2), nontrivial=nt, mutate=mutate if ctx.seed % 2 else mutate_got, label="n2",
              chunk_events=1500 if not t else 6000, jobs=4)
    ctx.judge("MetaAggTrace", t3, "trace_base.cfg", consts(3), nontrivial=nt, mutate=mutate_got if ctx.seed % 2 else mutate, label="n3",
              chunk_events=400 if not t else 2000, jobs=4)
    ctx.rule = ("executions = histories of writes / updates / deletes / renames through the gRPC of 2 or 3 real filer servers with separate "
                "stores and each other as peers (TLC witnesses of the layer-A model, seeded random histories, histories with "
                "deliveries between two filers held back and let go, directed restart-after-conflict and three-filer causal "
                "histories), lookups in between, barriers (a marker change per filer, waited for everywhere), a restart of one "
                "filer over the same store directory; recorded: every result, every store's listing at every barrier, everything "
                "handed to an aggregated and a local subscriber of every filer (origin, signatures, old and new entry)")
    ctx.assumptions += [
        "one directory per execution, file entries without chunks; payload ids in an extended attribute",
        "a restart is orderly: servers stopped, the local metadata log flushed COMPLETELY, then the store closed (Filer.Shutdown "
        "itself is run in a child process: it panics, see X05-shutdown-flush-race); a crash that loses the unflushed log is "
        "covered on the model only",
        "the once-a-minute offset record cannot be forced: executions after the first minute of a driver run see one",
        "holding back a delivery = blocking SendMsg of the peer's SubscribeLocalMetadata stream in the gRPC server the driver owns",
    ]
